// c07: site extractor for property C07 (every build step is a function of its inputs).
//
//	c07 extract <repo>            -> Lean source of lean/BMV/Gen/MapRanges.lean on stdout
//	c07 json    <repo>            -> the same table as JSON (for the driver and for reading)
//
// The program type-checks the anchored packages of <repo> from source (go/parser + go/types; the
// dependencies come from the compiler's export data listed by `go list -export -deps`) and
// records
//   - every `range` statement whose ranged expression has a map type, with file, enclosing
//     function, the ranged expression, an ordinal (so that the identity of a site does not
//     depend on line numbers) and a purely syntactic classification of the loop body;
//   - every `range` over a slice that is known to be extended in map-iteration order
//     (procbuilder.Allopcodes, BasmInstance.matchers/matchersOps), same identity and class;
//     the shape "append the keys to a fresh local slice, library-sort it before any other use"
//     (also slices.Sorted(maps.Keys(m)), slices.Collect(maps.Keys(m)) + library sort) gets the
//     class "sortedkeys" and a generic key: it is accepted by a rule, not by a per-function row;
//     maps.Keys / maps.Values / maps.All calls are map walks too;
//   - policy anchors (kind policy): a hash of the persistent state and the scan loops of functions
//     whose policy other rows rely on (bondgo's register allocator);
//   - every sort with a custom comparator (kind sortcmp), with the shape of the comparator;
//   - every use of the clock (time.Now/Since/Until), of math/rand and crypto/rand, of
//     temp-file / pid / hostname sources, and every `go` statement.
//
// Nothing here decides whether a site is harmful: that is the job of the hand-written table
// BMV.Props.C07.Expect, which the Lean kernel compares with this output on every run.
package main

import (
	"bytes"
	"encoding/json"
	"fmt"
	"go/ast"
	"go/importer"
	"go/parser"
	"go/token"
	"go/types"
	"io"
	"os"
	"os/exec"
	"path/filepath"
	"sort"
	"strings"

	"bmvh/common"
)

// packages walked (relative to the repo root); the file list names files of the package that are
// NOT walked: they implement simulation / emulation / evolutionary search / redeployment, which
// produce no build artefact (simulation determinism is property C09, goroutine lifetime C17)
var targets = []struct {
	pkg     string
	exclude []string
}{
	{"pkg/basm", nil},
	{"pkg/bmreqs", nil},
	{"pkg/bmnumbers", nil},
	{"pkg/bmline", nil},
	{"pkg/bmmeta", nil},
	{"pkg/bondgo", nil},
	{"pkg/neuralbond", nil},
	{"pkg/bmqsim", nil},
	{"pkg/bmmatrix", nil},
	{"pkg/bondmachine", []string{"simreport.go", "simulate.go", "vm.go", "vmdump.go", "evolutionary.go",
		"redeployer.go", "emudrivers.go", "simdrivers.go", "graphviz.go"}},
	{"pkg/procbuilder", nil},
	{"cmd/basm", nil},
	{"cmd/bondgo", nil},
	{"cmd/neuralbond", nil},
	{"cmd/bmqsim", nil},
	{"cmd/bondmachine", nil},
}

type listed struct {
	ImportPath string
	Export     string
	Dir        string
	GoFiles    []string
	Error      *struct{ Err string }
}

// Site is one row of the generated table.
type Site struct {
	Kind  string `json:"kind"`           // "range" | "ordered" | "sortcmp" | "policy" | "clock" | "rand" | "go" | "env"
	File  string `json:"file"`           // path relative to the repo root
	Func  string `json:"func"`           // enclosing function, "(*T).m" for methods, "<pkg>" at package level
	Expr  string `json:"expr"`           // ranged expression / callee
	Ord   int    `json:"ord"`            // ordinal among the sites with the same kind,file,func,expr
	Class string `json:"class"`          // "+"-joined sorted flag set (range sites), "" otherwise
	Line  int    `json:"line"`           // informative only; not part of the identity
	Note  string `json:"note,omitempty"` // readable detail behind a hashed class (policy anchors)
}

func (s Site) ID() string {
	return fmt.Sprintf("%s|%s|%s|%s|%d", s.Kind, s.File, s.Func, s.Expr, s.Ord)
}

// Key is the FNV-1a 64-bit hash of "<identity>#<class>": the Lean kernel compares these numbers
// (comparing the strings themselves in the kernel costs ~0.1 s per pair). BMV/SchedExpect.lean
// recomputes the hash of every hand-written row when it is compiled.
func (s Site) Key() uint64 {
	h := uint64(0xcbf29ce484222325)
	text := s.ID() + "#" + s.Class
	if s.Class == "sortedkeys" {
		// the generic rule: these sites are accepted by BMV.Sched.Expect.covered without a table row
		// (theorem sorted_after_det), wherever they live; they all carry the key of "*#sortedkeys"
		text = "*#sortedkeys"
	}
	for _, b := range []byte(text) {
		h ^= uint64(b)
		h *= 0x100000001b3
	}
	return h
}

func die(format string, a ...interface{}) {
	fmt.Fprintf(os.Stderr, "c07: "+format+"\n", a...)
	os.Exit(2)
}

func goList(repo string) map[string]*listed {
	args := []string{"list", "-tags", "verif", "-export", "-deps", "-e", "-json=ImportPath,Export,Dir,GoFiles,Error"}
	for _, t := range targets {
		args = append(args, "./"+t.pkg)
	}
	cmd := exec.Command("go", args...)
	cmd.Dir = repo
	var out, errb bytes.Buffer
	cmd.Stdout = &out
	cmd.Stderr = &errb
	if err := cmd.Run(); err != nil {
		die("go list failed: %v\n%s", err, errb.String())
	}
	res := map[string]*listed{}
	dec := json.NewDecoder(&out)
	for {
		l := new(listed)
		if err := dec.Decode(l); err == io.EOF {
			break
		} else if err != nil {
			die("go list output: %v", err)
		}
		res[l.ImportPath] = l
	}
	return res
}

type walker struct {
	fset  *token.FileSet
	info  *types.Info
	rel   string // file path relative to repo
	fn    string // enclosing function
	body  *ast.BlockStmt
	sites *[]Site
	stack []ast.Node // ancestors of the node being inspected (innermost last)
}

func recvName(fd *ast.FuncDecl) string {
	if fd.Recv == nil || len(fd.Recv.List) == 0 {
		return fd.Name.Name
	}
	t := fd.Recv.List[0].Type
	star := ""
	if s, ok := t.(*ast.StarExpr); ok {
		star = "*"
		t = s.X
	}
	// generic receivers: T[P]
	if ix, ok := t.(*ast.IndexExpr); ok {
		t = ix.X
	}
	name := "?"
	if id, ok := t.(*ast.Ident); ok {
		name = id.Name
	}
	if star != "" {
		return "(*" + name + ")." + fd.Name.Name
	}
	return name + "." + fd.Name.Name
}

// ---- syntactic classification of a map-range body ----

var pureCallPkgs = map[string]bool{
	"strings": true, "strconv": true, "errors": true, "math": true, "unicode": true,
	"path/filepath": true, "bytes": true, "regexp": true, "math/bits": true, "reflect": true,
	"unicode/utf8": true, "slices": true, "maps": true,
}

var outputFuncs = map[string]bool{ // package-level functions that write somewhere
	"fmt.Print": true, "fmt.Printf": true, "fmt.Println": true,
	"fmt.Fprint": true, "fmt.Fprintf": true, "fmt.Fprintln": true,
	"os.WriteFile": true, "io/ioutil.WriteFile": true, "io.WriteString": true,
	"log.Print": true, "log.Printf": true, "log.Println": true,
}

var outputMethods = map[string]bool{
	"Write": true, "WriteString": true, "WriteByte": true, "WriteRune": true,
}

var exitFuncs = map[string]bool{
	"os.Exit": true, "log.Fatal": true, "log.Fatalf": true, "log.Fatalln": true,
	"log.Panic": true, "log.Panicf": true,
}

type classifier struct {
	w     *walker
	label string // label of the loop itself ("" if none): `continue label` is then an ordinary continue
	rs    *ast.RangeStmt
	flags map[string]bool
	apps  map[types.Object]bool // outer variables appended to in the body
	keyOb []types.Object        // objects of the range key / value variables
}

func (c *classifier) local(o types.Object) bool {
	return o != nil && o.Pos() >= c.rs.Pos() && o.Pos() < c.rs.End()
}

func (c *classifier) rootIdent(e ast.Expr) *ast.Ident {
	for {
		switch x := e.(type) {
		case *ast.Ident:
			return x
		case *ast.ParenExpr:
			e = x.X
		case *ast.SelectorExpr:
			e = x.X
		case *ast.IndexExpr:
			e = x.X
		case *ast.StarExpr:
			e = x.X
		case *ast.SliceExpr:
			e = x.X
		case *ast.TypeAssertExpr:
			e = x.X
		default:
			return nil
		}
	}
}

// mentionsKey: some index expression on the path of e mentions the range key or value variable,
// or the root of e is the range value variable itself (a write through the ranged element).
func (c *classifier) mentionsKey(e ast.Expr) bool {
	found := false
	isKey := func(id *ast.Ident) bool {
		o := c.w.info.ObjectOf(id)
		for _, k := range c.keyOb {
			if o == k {
				return true
			}
		}
		return false
	}
	for {
		switch x := e.(type) {
		case *ast.Ident:
			return found || isKey(x)
		case *ast.ParenExpr:
			e = x.X
		case *ast.SelectorExpr:
			e = x.X
		case *ast.StarExpr:
			e = x.X
		case *ast.SliceExpr:
			e = x.X
		case *ast.TypeAssertExpr:
			e = x.X
		case *ast.IndexExpr:
			ast.Inspect(x.Index, func(n ast.Node) bool {
				if id, ok := n.(*ast.Ident); ok && isKey(id) {
					found = true
				}
				return true
			})
			e = x.X
		default:
			return found
		}
	}
}

func (c *classifier) isString(e ast.Expr) bool {
	t := c.w.info.TypeOf(e)
	if t == nil {
		return false
	}
	b, ok := t.Underlying().(*types.Basic)
	return ok && b.Info()&types.IsString != 0
}

func sameExpr(a, b ast.Expr) bool { return types.ExprString(a) == types.ExprString(b) }

func (c *classifier) lhs(l ast.Expr, tok token.Token, r ast.Expr) {
	if id, ok := l.(*ast.Ident); ok && id.Name == "_" {
		return
	}
	root := c.rootIdent(l)
	if root == nil {
		c.flags["accum"] = true
		return
	}
	o := c.w.info.ObjectOf(root)
	if c.local(o) {
		// a write through the ranged value (pointer / struct copy) or a loop-local variable
		isKV := false
		for _, k := range c.keyOb {
			if o == k {
				isKV = true
			}
		}
		if isKV && root != l {
			c.flags["keyed"] = true
		}
		return
	}
	// outer variable
	if r != nil {
		if call, ok := r.(*ast.CallExpr); ok {
			if f, ok := call.Fun.(*ast.Ident); ok && f.Name == "append" && len(call.Args) > 0 {
				if c.mentionsKey(l) {
					c.flags["keyed"] = true
				} else {
					c.flags["append"] = true
					if o != nil {
						c.apps[o] = true
					}
				}
				return
			}
		}
	}
	if c.mentionsKey(l) {
		c.flags["keyed"] = true
		return
	}
	if c.isString(l) {
		if tok == token.ADD_ASSIGN {
			c.flags["concat"] = true
			return
		}
		if be, ok := r.(*ast.BinaryExpr); ok && tok == token.ASSIGN && be.Op == token.ADD {
			// s = s + x  or  s = x + s (any depth on the left spine)
			e := ast.Expr(be)
			for {
				b2, ok := e.(*ast.BinaryExpr)
				if !ok || b2.Op != token.ADD {
					break
				}
				if sameExpr(b2.X, l) || sameExpr(b2.Y, l) {
					c.flags["concat"] = true
					return
				}
				e = b2.X
			}
		}
	}
	c.flags["accum"] = true
}

func (c *classifier) calleeName(call *ast.CallExpr) (pkgPath, name string, method bool, builtin bool, conv bool) {
	fun := call.Fun
	if p, ok := fun.(*ast.ParenExpr); ok {
		fun = p.X
	}
	if tv, ok := c.w.info.Types[fun]; ok && tv.IsType() {
		return "", "", false, false, true
	}
	switch f := fun.(type) {
	case *ast.Ident:
		if _, ok := c.w.info.ObjectOf(f).(*types.Builtin); ok {
			return "", f.Name, false, true, false
		}
		if o := c.w.info.ObjectOf(f); o != nil && o.Pkg() != nil {
			return o.Pkg().Path(), f.Name, false, false, false
		}
		return "", f.Name, false, false, false
	case *ast.SelectorExpr:
		if id, ok := f.X.(*ast.Ident); ok {
			if pn, ok := c.w.info.ObjectOf(id).(*types.PkgName); ok {
				return pn.Imported().Path(), f.Sel.Name, false, false, false
			}
		}
		return "", f.Sel.Name, true, false, false
	}
	return "", "?", false, false, false
}

func (c *classifier) classify() string {
	c.flags = map[string]bool{}
	c.apps = map[types.Object]bool{}
	for _, kv := range []ast.Expr{c.rs.Key, c.rs.Value} {
		if id, ok := kv.(*ast.Ident); ok && id.Name != "_" {
			if o := c.w.info.ObjectOf(id); o != nil {
				c.keyOb = append(c.keyOb, o)
			}
		}
	}
	// key/value assigned to outer variables (`for k = range m`): last-one-wins, order sensitive
	if c.rs.Tok == token.ASSIGN {
		c.flags["accum"] = true
	}
	// depth of constructs that capture an unlabeled break
	var visit func(n ast.Node, brk int)
	visit = func(n ast.Node, brk int) {
		if n == nil {
			return
		}
		switch x := n.(type) {
		case *ast.FuncLit:
			// a closure defined in the body: its returns are not the loop's; still scan for writes
			ast.Inspect(x.Body, func(m ast.Node) bool {
				switch y := m.(type) {
				case *ast.AssignStmt:
					if y.Tok != token.DEFINE {
						for i, l := range y.Lhs {
							var r ast.Expr
							if len(y.Rhs) == len(y.Lhs) {
								r = y.Rhs[i]
							}
							c.lhs(l, y.Tok, r)
						}
					}
				case *ast.CallExpr:
					c.call(y)
				}
				return true
			})
			return
		case *ast.ReturnStmt:
			c.flags["early"] = true
		case *ast.BranchStmt:
			if x.Tok == token.GOTO {
				c.flags["early"] = true
			}
			if x.Tok == token.BREAK && (x.Label != nil || brk == 0) {
				c.flags["early"] = true
			}
			if x.Tok == token.CONTINUE && x.Label != nil && x.Label.Name != c.label {
				// continue of an OUTER loop leaves this loop early (a continue to the loop's own label
				// is an ordinary continue)
				c.flags["early"] = true
			}
		case *ast.SendStmt:
			c.flags["send"] = true
		case *ast.GoStmt:
			c.flags["go"] = true
		case *ast.IncDecStmt:
			c.lhs(x.X, token.ADD_ASSIGN, nil)
		case *ast.AssignStmt:
			if x.Tok != token.DEFINE {
				for i, l := range x.Lhs {
					var r ast.Expr
					if len(x.Rhs) == len(x.Lhs) {
						r = x.Rhs[i]
					}
					c.lhs(l, x.Tok, r)
				}
			}
		case *ast.CallExpr:
			c.call(x)
		}
		nb := brk
		switch n.(type) {
		case *ast.ForStmt, *ast.RangeStmt, *ast.SwitchStmt, *ast.TypeSwitchStmt, *ast.SelectStmt:
			nb = brk + 1
		}
		// children
		ast.Inspect(n, func(m ast.Node) bool {
			if m == n {
				return true
			}
			if m != nil {
				visit(m, nb)
			}
			return false
		})
	}
	for _, st := range c.rs.Body.List {
		visit(st, 0)
	}
	c.crossDependence()
	// sorted afterwards in the same function?
	if len(c.apps) > 0 && c.w.body != nil {
		ast.Inspect(c.w.body, func(n ast.Node) bool {
			call, ok := n.(*ast.CallExpr)
			if !ok || call.Pos() < c.rs.End() {
				return true
			}
			pkg, name, _, _, _ := c.calleeName(call)
			if (pkg == "sort" && (name == "Strings" || name == "Ints" || name == "Float64s" || name == "Sort" || name == "Stable" || name == "Slice" || name == "SliceStable")) ||
				(pkg == "slices" && strings.HasPrefix(name, "Sort")) {
				for _, a := range call.Args {
					ast.Inspect(a, func(m ast.Node) bool {
						if id, ok := m.(*ast.Ident); ok && c.apps[c.w.info.ObjectOf(id)] {
							c.flags["sorted"] = true
						}
						return true
					})
				}
			}
			return true
		})
	}
	if len(c.flags) == 0 {
		return "pure"
	}
	fl := []string{}
	for f := range c.flags {
		fl = append(fl, f)
	}
	sort.Strings(fl)
	return strings.Join(fl, "+")
}

// crossDependence sets the flag "xdep" when one iteration of the loop decides what it writes to an
// outer variable by reading ANOTHER outer variable that the loop also writes (in an earlier or
// later iteration): `case "type": typeS = v; case "index": if typeS == … { port = … }`.  Such a body
// is order sensitive even though each single statement is a plain assignment (class "accum").
// Self-dependence (`if s != "" { s += "," }`, `n++`, `x = x + …`) is the ordinary accumulate and
// is not flagged; reads of cells indexed by the ranged key are not flagged either.
func (c *classifier) crossDependence() {
	written := map[types.Object]bool{}
	outerRoot := func(e ast.Expr) types.Object {
		if c.mentionsKey(e) {
			return nil
		}
		root := c.rootIdent(e)
		if root == nil || root.Name == "_" {
			return nil
		}
		o := c.w.info.ObjectOf(root)
		if o == nil || c.local(o) {
			return nil
		}
		if _, isVar := o.(*types.Var); !isVar {
			return nil
		}
		return o
	}
	ast.Inspect(c.rs.Body, func(n ast.Node) bool {
		switch x := n.(type) {
		case *ast.AssignStmt:
			if x.Tok != token.DEFINE {
				for _, l := range x.Lhs {
					if o := outerRoot(l); o != nil {
						written[o] = true
					}
				}
			}
		case *ast.IncDecStmt:
			if o := outerRoot(x.X); o != nil {
				written[o] = true
			}
		}
		return true
	})
	if len(written) < 2 {
		return
	}
	reads := func(e ast.Node) map[types.Object]bool {
		r := map[types.Object]bool{}
		if e == nil {
			return r
		}
		ast.Inspect(e, func(n ast.Node) bool {
			if id, ok := n.(*ast.Ident); ok {
				if o := c.w.info.ObjectOf(id); o != nil && written[o] {
					r[o] = true
				}
			}
			return true
		})
		return r
	}
	writes := func(n ast.Node) map[types.Object]bool {
		w := map[types.Object]bool{}
		if n == nil {
			return w
		}
		ast.Inspect(n, func(m ast.Node) bool {
			switch x := m.(type) {
			case *ast.AssignStmt:
				if x.Tok != token.DEFINE {
					for _, l := range x.Lhs {
						if o := outerRoot(l); o != nil {
							w[o] = true
						}
					}
				}
			case *ast.IncDecStmt:
				if o := outerRoot(x.X); o != nil {
					w[o] = true
				}
			}
			return true
		})
		return w
	}
	cross := func(rd, wr map[types.Object]bool) bool {
		for r := range rd {
			for w := range wr {
				if r != w {
					return true
				}
			}
		}
		return false
	}
	ast.Inspect(c.rs.Body, func(n ast.Node) bool {
		switch x := n.(type) {
		case *ast.AssignStmt:
			if x.Tok == token.DEFINE {
				return true
			}
			wr := map[types.Object]bool{}
			for _, l := range x.Lhs {
				if o := outerRoot(l); o != nil {
					wr[o] = true
				}
			}
			rd := map[types.Object]bool{}
			for _, r := range x.Rhs {
				for o := range reads(r) {
					rd[o] = true
				}
			}
			if cross(rd, wr) {
				c.flags["xdep"] = true
			}
		case *ast.IfStmt:
			wr := writes(x.Body)
			for o := range writes(x.Else) {
				wr[o] = true
			}
			rd := reads(x.Cond)
			for o := range reads(x.Init) {
				rd[o] = true
			}
			if cross(rd, wr) {
				c.flags["xdep"] = true
			}
		case *ast.SwitchStmt:
			if x.Tag != nil && cross(reads(x.Tag), writes(x.Body)) {
				c.flags["xdep"] = true
			}
			for _, cc := range x.Body.List {
				if cl, ok := cc.(*ast.CaseClause); ok {
					rd := map[types.Object]bool{}
					for _, e := range cl.List {
						for o := range reads(e) {
							rd[o] = true
						}
					}
					wr := map[types.Object]bool{}
					for _, st := range cl.Body {
						for o := range writes(st) {
							wr[o] = true
						}
					}
					if cross(rd, wr) {
						c.flags["xdep"] = true
					}
				}
			}
		}
		return true
	})
}

func (c *classifier) call(call *ast.CallExpr) {
	pkg, name, method, builtin, conv := c.calleeName(call)
	switch {
	case conv:
		return
	case builtin:
		switch name {
		case "delete":
			if len(call.Args) == 2 {
				root := c.rootIdent(call.Args[0])
				if root != nil && c.local(c.w.info.ObjectOf(root)) {
					return
				}
				keyed := false
				ast.Inspect(call.Args[1], func(n ast.Node) bool {
					if id, ok := n.(*ast.Ident); ok {
						o := c.w.info.ObjectOf(id)
						for _, k := range c.keyOb {
							if o == k {
								keyed = true
							}
						}
					}
					return true
				})
				if keyed {
					c.flags["keyed"] = true
				} else {
					c.flags["accum"] = true
				}
			}
		case "panic":
			c.flags["early"] = true
		case "close":
			c.flags["send"] = true
		}
		return
	case method:
		if outputMethods[name] {
			c.flags["output"] = true
			return
		}
		// error.Error(), String() and the like are treated as opaque calls as well
		c.flags["calls"] = true
	default:
		full := pkg + "." + name
		if outputFuncs[full] {
			c.flags["output"] = true
			return
		}
		if exitFuncs[full] {
			c.flags["early"] = true
			return
		}
		if pureCallPkgs[pkg] || (pkg == "fmt" && (strings.HasPrefix(name, "Sprint") || name == "Errorf")) || pkg == "sort" {
			return
		}
		c.flags["calls"] = true
	}
}

// ---- walking ----

func (w *walker) add(kind, expr string, pos token.Pos, class string) {
	*w.sites = append(*w.sites, Site{Kind: kind, File: w.rel, Func: w.fn, Expr: expr, Class: class,
		Line: w.fset.Position(pos).Line})
}

// ---- the generic, intrinsically order-insensitive shape: collect, then library sort ----

var libSorts = map[string]bool{"sort.Strings": true, "sort.Ints": true, "sort.Float64s": true, "slices.Sort": true}

func orderedBasic(t types.Type) bool {
	b, ok := t.Underlying().(*types.Basic)
	return ok && b.Info()&(types.IsString|types.IsInteger|types.IsFloat) != 0
}

func (w *walker) pkgCall(call *ast.CallExpr) string {
	fun := call.Fun
	if ix, ok := fun.(*ast.IndexExpr); ok { // explicit instantiation
		fun = ix.X
	}
	sel, ok := fun.(*ast.SelectorExpr)
	if !ok {
		return ""
	}
	id, ok := sel.X.(*ast.Ident)
	if !ok {
		return ""
	}
	pn, ok := w.info.ObjectOf(id).(*types.PkgName)
	if !ok {
		return ""
	}
	return pn.Imported().Path() + "." + sel.Sel.Name
}

// freshLocalThenSorted: `x` is a variable declared inside the enclosing function with a slice type
// whose elements are strings / integers / floats, it is not mentioned between its declaration and
// `after` except at `fill` (the statement that puts the map's keys into it), and the FIRST statement
// that mentions it afterwards, in the same block as `after`, is `sort.Strings(x)` / `sort.Ints(x)` /
// `sort.Float64s(x)` / `slices.Sort(x)` — a library sort by the natural total order of the elements.
// Whatever order the keys arrived in, the list every later use sees is the same (theorem
// BMV.Props.C07.sorted_after_det).
func (w *walker) freshLocalThenSorted(x *ast.Ident, fill ast.Node, after ast.Stmt, block []ast.Stmt) bool {
	obj, ok := w.info.ObjectOf(x).(*types.Var)
	if !ok || obj.IsField() || w.body == nil || obj.Pos() < w.body.Pos() || obj.Pos() > w.body.End() {
		return false
	}
	sl, ok := obj.Type().Underlying().(*types.Slice)
	if !ok || !orderedBasic(sl.Elem()) {
		return false
	}
	// no mention between the declaration and the fill statement, except inside the fill statement
	// and the declaration statement itself (`x := make([]string, 0, len(m))`)
	clean := true
	ast.Inspect(w.body, func(n ast.Node) bool {
		if n == nil {
			return true
		}
		if n == fill {
			return false
		}
		if as, ok := n.(*ast.AssignStmt); ok && as.Tok == token.DEFINE {
			for _, l := range as.Lhs {
				if id, ok := l.(*ast.Ident); ok && w.info.ObjectOf(id) == obj {
					// the defining statement: the right-hand side must not be derived from anything ordered
					for _, r := range as.Rhs {
						switch e := r.(type) {
						case *ast.CallExpr:
							if f, ok := e.Fun.(*ast.Ident); !ok || f.Name != "make" {
								if w.pkgCall(e) != "slices.Collect" {
									clean = false
								}
							}
						case *ast.CompositeLit:
							if len(e.Elts) != 0 {
								clean = false
							}
						default:
							clean = false
						}
					}
					return false
				}
			}
		}
		if id, ok := n.(*ast.Ident); ok && w.info.ObjectOf(id) == obj && id.Pos() != obj.Pos() && id.Pos() < fill.Pos() {
			clean = false
		}
		return true
	})
	if !clean || block == nil {
		return false
	}
	// first later statement of the same block that mentions x
	seen := false
	for _, st := range block {
		if st == after {
			seen = true
			continue
		}
		if !seen {
			continue
		}
		mentions := false
		ast.Inspect(st, func(n ast.Node) bool {
			if id, ok := n.(*ast.Ident); ok && w.info.ObjectOf(id) == obj {
				mentions = true
			}
			return true
		})
		if !mentions {
			continue
		}
		es, ok := st.(*ast.ExprStmt)
		if !ok {
			return false
		}
		call, ok := es.X.(*ast.CallExpr)
		if !ok || len(call.Args) != 1 || !libSorts[w.pkgCall(call)] {
			return false
		}
		arg, ok := call.Args[0].(*ast.Ident)
		return ok && w.info.ObjectOf(arg) == obj
	}
	return false
}

// stmtList: the statement list a statement sits in (block, case clause, select clause)
func stmtList(n ast.Node) []ast.Stmt {
	switch x := n.(type) {
	case *ast.BlockStmt:
		return x.List
	case *ast.CaseClause:
		return x.Body
	case *ast.CommClause:
		return x.Body
	}
	return nil
}

// sortedKeysLoop: `for k[, v] := range m { x = append(x, k) }` (or `append(x, v)`) into a fresh local
// slice that is library-sorted before any other use.
func (w *walker) sortedKeysLoop(rs *ast.RangeStmt) bool {
	if rs.Tok != token.DEFINE || len(rs.Body.List) != 1 {
		return false
	}
	as, ok := rs.Body.List[0].(*ast.AssignStmt)
	if !ok || as.Tok != token.ASSIGN || len(as.Lhs) != 1 || len(as.Rhs) != 1 {
		return false
	}
	x, ok := as.Lhs[0].(*ast.Ident)
	if !ok {
		return false
	}
	call, ok := as.Rhs[0].(*ast.CallExpr)
	if !ok || len(call.Args) != 2 {
		return false
	}
	if f, ok := call.Fun.(*ast.Ident); !ok || f.Name != "append" {
		return false
	}
	if _, isB := w.info.ObjectOf(call.Fun.(*ast.Ident)).(*types.Builtin); !isB {
		return false
	}
	if a0, ok := call.Args[0].(*ast.Ident); !ok || w.info.ObjectOf(a0) != w.info.ObjectOf(x) {
		return false
	}
	el, ok := call.Args[1].(*ast.Ident)
	if !ok {
		return false
	}
	isKV := false
	for _, kv := range []ast.Expr{rs.Key, rs.Value} {
		if id, ok := kv.(*ast.Ident); ok && id.Name != "_" && w.info.ObjectOf(id) == w.info.ObjectOf(el) {
			isKV = true
		}
	}
	if !isKV {
		return false
	}
	var after ast.Stmt = rs
	par := w.parent(0)
	if ls, ok := par.(*ast.LabeledStmt); ok {
		after = ls
		par = w.parent(1)
	}
	return w.freshLocalThenSorted(x, rs, after, stmtList(par))
}

// mapSeqCall: "maps.Keys" / "maps.Values" / "maps.All" (std or golang.org/x/exp) applied to a map, else ""
func (w *walker) mapSeqCall(e ast.Expr) string {
	call, ok := e.(*ast.CallExpr)
	if !ok {
		return ""
	}
	switch pc := w.pkgCall(call); pc {
	case "maps.Keys", "maps.Values", "maps.All", "golang.org/x/exp/maps.Keys", "golang.org/x/exp/maps.Values":
		return pc
	}
	return ""
}

// mapSeqSite: every maps.Keys / maps.Values / maps.All call is a map walk (kind "range"):
//
//	slices.Sorted(maps.Keys(m))                                   -> class sortedkeys (generic rule)
//	x := slices.Collect(maps.Keys(m)); sort.Strings(x) / slices.Sort(x) before any other use -> sortedkeys
//	for k := range maps.Keys(m) { … }                             -> classified like a map range (see inspect)
//	slices.Collect(maps.Keys(m)) otherwise, x/exp maps.Keys(m) (a slice in map order), anything else
//	                                                              -> class collect / seq: needs a row
func (w *walker) mapSeqSite(call *ast.CallExpr) {
	pc := w.mapSeqCall(call)
	if pc == "" {
		return
	}
	expr := types.ExprString(call)
	if rs, ok := w.parent(0).(*ast.RangeStmt); ok && rs.X == call {
		return // recorded by the RangeStmt case with the class of its body
	}
	class := "seq"
	if outer, ok := w.parent(0).(*ast.CallExpr); ok {
		switch w.pkgCall(outer) {
		case "slices.Sorted":
			if t := w.info.TypeOf(outer); t != nil {
				if sl, ok := t.Underlying().(*types.Slice); ok && orderedBasic(sl.Elem()) {
					class = "sortedkeys"
				}
			}
		case "slices.Collect":
			class = "collect"
			// x := slices.Collect(maps.Keys(m)) followed by a library sort of x
			if as, ok := w.parent(1).(*ast.AssignStmt); ok && len(as.Lhs) == 1 && len(as.Rhs) == 1 && as.Rhs[0] == outer {
				if x, ok := as.Lhs[0].(*ast.Ident); ok {
					if block := stmtList(w.parent(2)); block != nil && as.Tok == token.DEFINE && w.freshLocalThenSorted(x, as, as, block) {
						class = "sortedkeys"
					}
				}
			}
		case "slices.SortedFunc", "slices.SortedStableFunc":
			class = "sortedfunc" // custom comparator: reviewed by hand like every sortcmp site
		}
	}
	w.add("range", expr, call.Pos(), class)
}

// orderTainted: slices that other code extends while ranging over a map, so that their element
// order differs from process to process: procbuilder.Allopcodes (dynamically created opcodes are
// appended by EventuallyCreateInstruction in the order basm's dynamicalInstructions pass walks the
// section map) and BasmInstance.matchers / matchersOps (same pass).
func (w *walker) orderTainted(e ast.Expr) bool {
	var id *ast.Ident
	switch x := e.(type) {
	case *ast.Ident:
		id = x
	case *ast.SelectorExpr:
		id = x.Sel
	default:
		return false
	}
	v, ok := w.info.ObjectOf(id).(*types.Var)
	if !ok || v.Pkg() == nil {
		return false
	}
	p := v.Pkg().Path()
	switch {
	case strings.HasSuffix(p, "/pkg/procbuilder") && !v.IsField() && v.Name() == "Allopcodes":
		return true
	case strings.HasSuffix(p, "/pkg/basm") && v.IsField() && (v.Name() == "matchers" || v.Name() == "matchersOps"):
		return true
	}
	return false
}

// sortCall records every sort with a CUSTOM comparator (kind "sortcmp"): sort.Slice / SliceStable /
// slices.SortFunc / SortStableFunc (function literal or named less function) and sort.Sort / Stable
// (Less method of the argument's type).  A sort canonicalises the order of what came out of a map
// only if its comparator is a total order on the elements: a comparator that ignores part of the
// element leaves "equal" elements in their incoming (map) order.  Totality cannot be decided
// syntactically, so every such sort is inventoried and classified by hand; the class records the
// shape of the comparator: direct (one `return a OP b` on elements / fields, no calls), calls (keys
// derived by function calls), multi (several returns: a chain), loop, iface (Less method elsewhere),
// named (less function defined elsewhere).
func (w *walker) sortCall(call *ast.CallExpr) {
	sel, ok := call.Fun.(*ast.SelectorExpr)
	if !ok {
		return
	}
	id, ok := sel.X.(*ast.Ident)
	if !ok {
		return
	}
	pn, ok := w.info.ObjectOf(id).(*types.PkgName)
	if !ok {
		return
	}
	p, name := pn.Imported().Path(), sel.Sel.Name
	var less ast.Expr
	switch {
	case p == "sort" && (name == "Slice" || name == "SliceStable") && len(call.Args) == 2:
		less = call.Args[1]
	case p == "slices" && (name == "SortFunc" || name == "SortStableFunc") && len(call.Args) == 2:
		less = call.Args[1]
	case p == "sort" && (name == "Sort" || name == "Stable") && len(call.Args) == 1:
		w.add("sortcmp", p+"."+name+"("+types.ExprString(call.Args[0])+")", call.Pos(), "iface")
		return
	default:
		return
	}
	flags := map[string]bool{}
	if fl, ok := less.(*ast.FuncLit); ok {
		returns, calls, loops := 0, 0, 0
		ast.Inspect(fl.Body, func(n ast.Node) bool {
			switch x := n.(type) {
			case *ast.ReturnStmt:
				returns++
			case *ast.ForStmt, *ast.RangeStmt:
				loops++
			case *ast.CallExpr:
				if tv, ok := w.info.Types[x.Fun]; ok && tv.IsType() {
					return true
				}
				if f, ok := x.Fun.(*ast.Ident); ok {
					if _, b := w.info.ObjectOf(f).(*types.Builtin); b {
						return true
					}
				}
				calls++
			}
			return true
		})
		if calls > 0 {
			flags["calls"] = true
		}
		if returns > 1 {
			flags["multi"] = true
		}
		if loops > 0 {
			flags["loop"] = true
		}
		if len(flags) == 0 {
			flags["direct"] = true
		}
	} else {
		flags["named"] = true
	}
	fl := []string{}
	for f := range flags {
		fl = append(fl, f)
	}
	sort.Strings(fl)
	w.add("sortcmp", p+"."+name+"("+types.ExprString(call.Args[0])+")", call.Pos(), strings.Join(fl, "+"))
}

// policyAnchors: functions whose POLICY other rows of the table depend on.  The release walks of
// bondgo (`for … range bgfunct.Vars`, `for … range bg.Clean.Vars`) hand the registers of a scope back to
// the allocator in map order; that is harmless only while the allocator's answer to the next request does
// not depend on the order of earlier releases (lowest free register, scanning upward from 0, no memory of
// releases).  The anchor records, as a hash, the two syntactic facts that carry that policy: the
// variables the function declares before its service loop (its persistent state) and the headers of all
// its three-clause `for` loops (where every scan starts).  An allocator that remembers the last released
// register adds state and changes a scan's start: the anchor's class changes and the rows must be
// re-reviewed.  Refactors that touch neither stay quiet.
var policyAnchors = map[string]bool{
	"pkg/bondgo/runinfo.go|(*BondgoRuninfo).Var_assigner": true,
}

func (w *walker) policyAnchor(fd *ast.FuncDecl) {
	if fd.Body == nil || !policyAnchors[w.rel+"|"+w.fn] {
		return
	}
	var state, loops []string
	for _, st := range fd.Body.List {
		switch x := st.(type) {
		case *ast.AssignStmt:
			if x.Tok == token.DEFINE {
				for _, l := range x.Lhs {
					state = append(state, types.ExprString(l))
				}
			}
		case *ast.DeclStmt:
			if gd, ok := x.Decl.(*ast.GenDecl); ok {
				for _, sp := range gd.Specs {
					if vs, ok := sp.(*ast.ValueSpec); ok {
						for _, n := range vs.Names {
							state = append(state, n.Name)
						}
					}
				}
			}
		}
	}
	sort.Strings(state)
	stmt := func(s ast.Stmt) string {
		switch x := s.(type) {
		case nil:
			return ""
		case *ast.AssignStmt:
			l := []string{}
			for _, e := range x.Lhs {
				l = append(l, types.ExprString(e))
			}
			r := []string{}
			for _, e := range x.Rhs {
				r = append(r, types.ExprString(e))
			}
			return strings.Join(l, ",") + x.Tok.String() + strings.Join(r, ",")
		case *ast.IncDecStmt:
			return types.ExprString(x.X) + x.Tok.String()
		case *ast.ExprStmt:
			return types.ExprString(x.X)
		}
		return "?"
	}
	ast.Inspect(fd.Body, func(n ast.Node) bool {
		if f, ok := n.(*ast.ForStmt); ok && (f.Init != nil || f.Post != nil) {
			c := ""
			if f.Cond != nil {
				c = types.ExprString(f.Cond)
			}
			loops = append(loops, stmt(f.Init)+";"+c+";"+stmt(f.Post))
		}
		return true
	})
	note := "state{" + strings.Join(state, ",") + "} loops{" + strings.Join(loops, " | ") + "}"
	h := uint64(0xcbf29ce484222325)
	for _, b := range []byte(note) {
		h ^= uint64(b)
		h *= 0x100000001b3
	}
	*w.sites = append(*w.sites, Site{Kind: "policy", File: w.rel, Func: w.fn, Expr: "state+scans", Class: fmt.Sprintf("h%016x", h),
		Line: w.fset.Position(fd.Pos()).Line, Note: note})
}

func (w *walker) parent(k int) ast.Node {
	if len(w.stack) > k {
		return w.stack[len(w.stack)-1-k]
	}
	return nil
}

// ownLabel: the label of `lbl: for … range …`, "" if the loop has none
func (w *walker) ownLabel(rs *ast.RangeStmt) string {
	if ls, ok := w.parent(0).(*ast.LabeledStmt); ok && ls.Stmt == rs {
		return ls.Label.Name
	}
	return ""
}

func (w *walker) inspect(n ast.Node) bool {
	if n == nil {
		w.stack = w.stack[:len(w.stack)-1]
		return true
	}
	defer func() { w.stack = append(w.stack, n) }()
	switch x := n.(type) {
	case *ast.RangeStmt:
		if t := w.info.TypeOf(x.X); t != nil {
			if _, ok := t.Underlying().(*types.Map); ok {
				c := &classifier{w: w, rs: x, label: w.ownLabel(x)}
				cls := c.classify()
				if w.sortedKeysLoop(x) {
					cls = "sortedkeys"
				}
				w.add("range", types.ExprString(x.X), x.Pos(), cls)
			} else if w.mapSeqCall(x.X) != "" {
				// `for k := range maps.Keys(m)`: a map walk through an iterator
				c := &classifier{w: w, rs: x, label: w.ownLabel(x)}
				w.add("range", types.ExprString(x.X), x.Pos(), c.classify())
			} else if w.orderTainted(x.X) {
				// a slice whose tail is appended in map-iteration order elsewhere: walking it is as
				// order sensitive as walking the map (kind "ordered")
				c := &classifier{w: w, rs: x, label: w.ownLabel(x)}
				w.add("ordered", types.ExprString(x.X), x.Pos(), c.classify())
			}
		}
	case *ast.CallExpr:
		w.sortCall(x)
		w.mapSeqSite(x)
	case *ast.GoStmt:
		w.add("go", types.ExprString(x.Call.Fun), x.Pos(), "")
	case *ast.SelectorExpr:
		if id, ok := x.X.(*ast.Ident); ok {
			if pn, ok := w.info.ObjectOf(id).(*types.PkgName); ok {
				p := pn.Imported().Path()
				s := x.Sel.Name
				switch {
				case p == "time" && (s == "Now" || s == "Since" || s == "Until" || s == "Tick" || s == "After" || s == "NewTimer" || s == "NewTicker" || s == "Sleep"):
					w.add("clock", "time."+s, x.Pos(), "")
				case p == "math/rand" || p == "math/rand/v2" || p == "crypto/rand":
					if _, isType := w.info.ObjectOf(x.Sel).(*types.TypeName); !isType {
						w.add("rand", p+"."+s, x.Pos(), "")
					}
				case (p == "os" && (s == "Getpid" || s == "Hostname" || s == "CreateTemp" || s == "MkdirTemp" || s == "TempDir" || s == "Getwd" || s == "Environ")) ||
					(p == "io/ioutil" && (s == "TempFile" || s == "TempDir")):
					w.add("env", p+"."+s, x.Pos(), "")
				}
			}
		}
	}
	return true
}

func extract(repo string) ([]Site, []string) {
	pk := goList(repo)
	fset := token.NewFileSet()
	lookup := func(path string) (io.ReadCloser, error) {
		l, ok := pk[path]
		if !ok || l.Export == "" {
			return nil, fmt.Errorf("no export data for %s", path)
		}
		return os.Open(l.Export)
	}
	imp := importer.ForCompiler(fset, "gc", lookup)
	var sites []Site
	var problems []string
	var modPath string
	for ip := range pk {
		if strings.HasSuffix(ip, "/pkg/basm") {
			modPath = strings.TrimSuffix(ip, "/pkg/basm")
		}
	}
	for _, t := range targets {
		l := pk[modPath+"/"+t.pkg]
		if l == nil {
			problems = append(problems, "package not listed: "+t.pkg)
			continue
		}
		if l.Error != nil {
			problems = append(problems, "go list: "+t.pkg+": "+l.Error.Err)
		}
		var files []*ast.File
		var rels []string
		gofiles := append([]string{}, l.GoFiles...)
		sort.Strings(gofiles)
		for _, f := range gofiles {
			af, err := parser.ParseFile(fset, filepath.Join(l.Dir, f), nil, parser.SkipObjectResolution)
			if err != nil {
				problems = append(problems, "parse: "+err.Error())
				continue
			}
			files = append(files, af)
			rels = append(rels, t.pkg+"/"+f)
		}
		info := &types.Info{Types: map[ast.Expr]types.TypeAndValue{}, Defs: map[*ast.Ident]types.Object{},
			Uses: map[*ast.Ident]types.Object{}, Implicits: map[ast.Node]types.Object{}}
		nerr := 0
		conf := types.Config{Importer: imp, Error: func(err error) {
			nerr++
			if nerr <= 3 {
				problems = append(problems, "typecheck "+t.pkg+": "+err.Error())
			}
		}}
		conf.Check(l.ImportPath, fset, files, info)
		for i, af := range files {
			skip := false
			for _, f := range t.exclude {
				if strings.HasSuffix(rels[i], "/"+f) {
					skip = true
				}
			}
			if skip {
				continue
			}
			if strings.HasSuffix(rels[i], "_test.go") {
				continue
			}
			for _, d := range af.Decls {
				w := &walker{fset: fset, info: info, rel: rels[i], fn: "<pkg>", sites: &sites}
				if fd, ok := d.(*ast.FuncDecl); ok {
					w.fn = recvName(fd)
					w.body = fd.Body
					w.policyAnchor(fd)
				}
				ast.Inspect(d, w.inspect)
			}
		}
	}
	// ordinals: source order within (kind,file,func,expr)
	sort.SliceStable(sites, func(i, j int) bool {
		a, b := sites[i], sites[j]
		if a.File != b.File {
			return a.File < b.File
		}
		return a.Line < b.Line
	})
	cnt := map[string]int{}
	kept := sites[:0]
	for i := range sites {
		k := sites[i].Kind + "|" + sites[i].File + "|" + sites[i].Func + "|" + sites[i].Expr
		if sites[i].Kind != "range" && sites[i].Kind != "ordered" && sites[i].Kind != "sortcmp" && cnt[k] > 0 {
			continue // clock / rand / go / env uses are recorded once per function and callee
		}
		sites[i].Ord = cnt[k]
		cnt[k]++
		kept = append(kept, sites[i])
	}
	sites = kept
	sort.SliceStable(sites, func(i, j int) bool { return sites[i].ID() < sites[j].ID() })
	return sites, problems
}

func leanStr(s string) string {
	var b strings.Builder
	b.WriteByte('"')
	for _, r := range s {
		switch {
		case r == '"':
			b.WriteString("\\\"")
		case r == '\\':
			b.WriteString("\\\\")
		case r == '\n':
			b.WriteString("\\n")
		case r == '\t':
			b.WriteString("\\t")
		case r < 0x20 || r > 0x7e:
			fmt.Fprintf(&b, "\\u{%x}", r)
		default:
			b.WriteRune(r)
		}
	}
	b.WriteByte('"')
	return b.String()
}

// emitLean writes the regenerated Lean table
func emitLean(w io.Writer, sites []Site, problems []string) {
	line := func(format string, a ...interface{}) {
		fmt.Fprintf(w, format, a...)
		fmt.Fprintln(w)
	}
	line("/-")
	line("  REGENERATED by harness/cmd/c07 (tools/props/c07.py) on every run of the C07 check: do not edit.")
	line("  One row per `range` over a map-typed expression (and over the order-tainted slices")
	line("  procbuilder.Allopcodes / BasmInstance.matchers: kind ordered), per use of the clock / math/rand /")
	line("  crypto/rand / temp-pid-host sources and per `go` statement in the packages that make up")
	line("  basm, bondgo, neuralbond, bmqsim and bondmachine. Identity of a row = kind, file, enclosing")
	line("  function, expression, ordinal (line numbers are comments only).")
	line("-/")
	line("import BMV.Sched")
	line("namespace BMV.Gen.MapRanges")
	line("open BMV.Sched")
	line("")
	line("/-- extractor problems (parse / type errors); the obligation `problems = []` is part of C07 -/")
	line("def problems : List String := [")
	for i, p := range problems {
		sep := ","
		if i == len(problems)-1 {
			sep = ""
		}
		line("  %s%s", leanStr(p), sep)
	}
	line("]")
	line("")
	line("def sites : List Site := [")
	for i, s := range sites {
		sep := ","
		if i == len(sites)-1 {
			sep = ""
		}
		fl := []string{}
		if s.Class != "" {
			for _, f := range strings.Split(s.Class, "+") {
				fl = append(fl, leanStr(f))
			}
		}
		line("  ⟨0x%016x, %s, [%s]⟩%s  -- line %d", s.Key(), leanStr(s.ID()), strings.Join(fl, ", "), sep, s.Line)
	}
	line("]")
	line("")
	line("end BMV.Gen.MapRanges")
}

func main() {
	_ = common.Seed // no randomness is used by the extractor
	if len(os.Args) < 3 {
		die("usage: c07 extract|json <repo>")
	}
	repo, err := filepath.Abs(os.Args[2])
	if err != nil {
		die("%v", err)
	}
	sites, problems := extract(repo)
	out := common.NewOut(os.Stdout)
	defer out.Flush()
	mode := os.Args[1]
	if mode == "both" {
		// c07 both <repo> <file.lean>: Lean table into the file (replaced only when it changed), JSON on stdout
		if len(os.Args) < 4 {
			die("usage: c07 both <repo> <file.lean>")
		}
		var buf bytes.Buffer
		emitLean(&buf, sites, problems)
		old, _ := os.ReadFile(os.Args[3])
		if !bytes.Equal(old, buf.Bytes()) {
			tmp := os.Args[3] + ".tmp"
			if err := os.WriteFile(tmp, buf.Bytes(), 0644); err != nil {
				die("%v", err)
			}
			if err := os.Rename(tmp, os.Args[3]); err != nil {
				die("%v", err)
			}
		}
		mode = "json"
	}
	switch mode {
	case "json":
		type js struct {
			Site
			ID  string `json:"id"`
			Key string `json:"key"`
		}
		var l []js
		for _, s := range sites {
			l = append(l, js{s, s.ID(), fmt.Sprintf("0x%016x", s.Key())})
		}
		b, _ := json.MarshalIndent(map[string]interface{}{"sites": l, "problems": problems}, "", " ")
		out.Line("%s", string(b))
	case "extract":
		var buf bytes.Buffer
		emitLean(&buf, sites, problems)
		out.Line("%s", strings.TrimSuffix(buf.String(), "\n"))
	default:
		die("unknown mode %s", os.Args[1])
	}
}
