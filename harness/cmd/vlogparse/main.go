// vlogparse: parse a Verilog file set with bmvh/vlog and print its S-expression (one line).
//
//	vlogparse [-q] file.v ...     exit 0 + S-expression on stdout, or exit 1 + "ERROR <pos>: <class>: <msg>"
//	vlogparse -each file.v ...    parse every file on its own, print "OK <file> modules=<n>" / "ERROR …" per file
package main

import (
	"fmt"
	"os"

	"bmvh/vlog"
)

func main() {
	args := os.Args[1:]
	quiet, each := false, false
	for len(args) > 0 && (args[0] == "-q" || args[0] == "-each") {
		if args[0] == "-q" {
			quiet = true
		} else {
			each = true
		}
		args = args[1:]
	}
	if len(args) == 0 {
		fmt.Fprintln(os.Stderr, "usage: vlogparse [-q] [-each] file.v ...")
		os.Exit(2)
	}
	rc := 0
	if each {
		for _, f := range args {
			b, err := os.ReadFile(f)
			if err != nil {
				fmt.Println("ERROR", err)
				rc = 1
				continue
			}
			ms, err := vlog.ParseFile(f, string(b))
			if err != nil {
				fmt.Println("ERROR", err)
				rc = 1
				continue
			}
			fmt.Printf("OK %s modules=%d\n", f, len(ms))
		}
		os.Exit(rc)
	}
	files := map[string]string{}
	for _, f := range args {
		b, err := os.ReadFile(f)
		if err != nil {
			fmt.Println("ERROR", err)
			os.Exit(1)
		}
		files[f] = string(b)
	}
	d, err := vlog.ParseFiles(files)
	if err != nil {
		fmt.Println("ERROR", err)
		os.Exit(1)
	}
	if !quiet {
		fmt.Println(vlog.ToSexp(d))
	} else {
		fmt.Printf("OK modules=%d\n", len(d.Modules))
	}
}
