// Package basmdump: shared code of the C05 and C16 harnesses.
//
//   - Assemble / AssembleFile run the real BASM front-end in-process exactly like cmd/basm/main.go
//     does (BasmInstanceInit, ParseAssemblyString/ParseAssemblyDefault, RunAssembler,
//     Assembler2BondMachine, GetBondMachine); a panic is an observable (class "panic").
//   - Dump prints a *bondmachine.Bondmachine in the canonical text the Lean oracles read:
//
//     M rsize=<Rsize> inputs=<Inputs> outputs=<Outputs> ncp=<len(Domains)> procs=<Processors,..>
//     C <i> rsize= r= n= m= l= o= mode= ws= ops=<names,..> shared=<0|1> mw=<Max_word()> sc=<Shared_constraints, ';' separated | ->
//     SO <shared object> ...           Shared_objects (String() of each) or "SO -"
//     SL [<so id>,..] ...              Shared_links, one bracket per processor
//     W <i> <rom word>                 one per Program.Slocs entry, in order
//     D <i> <data word>                one per Data.Vars entry
//     II <kind>.<res>.<ext> ...        Internal_inputs   (or "II -")
//     IO <kind>.<res>.<ext> ...        Internal_outputs
//     LK <link> ...                    Links (-1 = unconnected)
//     E                                end of machine
//
// The real tool prints warnings on os.Stdout (fmt.Println in creatorbm.go): callers must keep
// their protocol stream separate — use Protocol().
package basmdump

import (
	"fmt"
	"io"
	"log"
	"os"
	"strings"

	"bmvh/common"

	"github.com/BondMachineHQ/BondMachine/pkg/basm"
	"github.com/BondMachineHQ/BondMachine/pkg/bmconfig"
	"github.com/BondMachineHQ/BondMachine/pkg/bminfo"
	"github.com/BondMachineHQ/BondMachine/pkg/bondmachine"
)

var proto *common.Out

// Protocol returns the line writer bound to the process' original stdout and redirects
// os.Stdout / the log package to /dev/null, so that the chatter of the real packages cannot mix
// with the protocol.  Idempotent.
func Protocol() *common.Out {
	if proto != nil {
		return proto
	}
	proto = common.NewOut(os.Stdout)
	if dn, err := os.OpenFile(os.DevNull, os.O_WRONLY, 0); err == nil {
		os.Stdout = dn
	}
	log.SetOutput(io.Discard)
	return proto
}

// Options of one assembly run.
type Options struct {
	MinWordSize    bool // -chooser-min-word-size (needed when a line matches several opcodes)
	DisableDynamic bool // -disable-dynamical-matching (`mov reg, number` then means rset only)
}

// ErrClass maps an error of the front-end to a small enum (message texts are not compared).
func ErrClass(err error) string {
	if err == nil {
		return "ok"
	}
	s := err.Error()
	switch {
	case strings.HasPrefix(s, "panic:"):
		return "panic"
	case strings.Contains(s, "no operator match"):
		return "nomatch"
	case strings.Contains(s, "entry point"), strings.Contains(s, "entry points"):
		return "entry"
	case strings.Contains(s, "symbol is specified multiple time"):
		return "dupsymbol"
	case strings.Contains(s, "no registers found"):
		return "noregs"
	case strings.Contains(s, "register size"):
		return "rsize"
	case strings.Contains(s, "unable to choose"):
		return "choice"
	case strings.Contains(s, "error processing"), strings.Contains(s, "Unknown Opcode"), strings.Contains(s, "does not fit"):
		return "asm"
	case strings.Contains(s, "IO index inconsistent"), strings.Contains(s, "wrong IO type"):
		return "ioatt"
	case strings.Contains(s, "not found"):
		return "notfound"
	}
	return "other"
}

func run(parse func(bi *basm.BasmInstance) error, o Options) (bm *bondmachine.Bondmachine, stage string, err error) {
	defer func() {
		if r := recover(); r != nil {
			bm = nil
			err = fmt.Errorf("panic: %v", r)
		}
	}()
	bi := new(basm.BasmInstance)
	bi.BMinfo = new(bminfo.BMinfo)
	bi.BasmInstanceInit(nil)
	if o.MinWordSize {
		bi.Activate(bmconfig.ChooserMinWordSize)
	}
	if o.DisableDynamic {
		bi.Activate(bmconfig.DisableDynamicalMatching)
	}
	stage = "parse"
	if err = parse(bi); err != nil {
		return nil, stage, err
	}
	stage = "passes"
	if err = bi.RunAssembler(); err != nil {
		return nil, stage, err
	}
	if bi.IsClustered() {
		return nil, "cluster", fmt.Errorf("clustered source")
	}
	stage = "create"
	if err = bi.Assembler2BondMachine(); err != nil {
		return nil, stage, err
	}
	stage = "done"
	return bi.GetBondMachine(), stage, nil
}

// Assemble runs the front-end on a source text.
func Assemble(src string, o Options) (*bondmachine.Bondmachine, string, error) {
	return run(func(bi *basm.BasmInstance) error { return bi.ParseAssemblyStringDefault(src) }, o)
}

// AssembleFiles runs the front-end on files (as `basm f1 f2 ...` does).
func AssembleFiles(paths []string, o Options) (*bondmachine.Bondmachine, string, error) {
	return run(func(bi *basm.BasmInstance) error {
		for _, p := range paths {
			if err := bi.ParseAssemblyDefault(p); err != nil {
				return err
			}
		}
		return nil
	}, o)
}

func bonds(bs []bondmachine.Bond) string {
	if len(bs) == 0 {
		return "-"
	}
	r := make([]string, len(bs))
	for i, b := range bs {
		r[i] = fmt.Sprintf("%d.%d.%d", b.Map_to, b.Res_id, b.Ext_id)
	}
	return strings.Join(r, " ")
}

// Dump renders the machine in the canonical text (see the package comment).
func Dump(bm *bondmachine.Bondmachine) []string {
	res := []string{}
	procs := make([]string, len(bm.Processors))
	for i, p := range bm.Processors {
		procs[i] = fmt.Sprint(p)
	}
	res = append(res, fmt.Sprintf("M rsize=%d inputs=%d outputs=%d ncp=%d procs=%s", bm.Rsize, bm.Inputs, bm.Outputs,
		len(bm.Domains), strings.Join(procs, ",")))
	for i, d := range bm.Domains {
		ops := make([]string, len(d.Op))
		for j, op := range d.Op {
			ops[j] = op.Op_get_name()
		}
		mode := "ha"
		if len(d.Modes) > 0 {
			mode = d.Modes[0]
		}
		shared := 0
		if d.Shared_constraints != "" || len(bm.Shared_objects) > 0 {
			shared = 1
		}
		sc := "-"
		if d.Shared_constraints != "" {
			sc = strings.ReplaceAll(d.Shared_constraints, ",", ";")
		}
		res = append(res, fmt.Sprintf("C %d rsize=%d r=%d n=%d m=%d l=%d o=%d mode=%s ws=%d ops=%s shared=%d mw=%d sc=%s", i, d.Rsize, d.R, d.N,
			d.M, d.L, d.O, mode, d.WordSize, strings.Join(ops, ","), shared, d.Max_word(), sc))
		for _, w := range d.Program.Slocs {
			res = append(res, fmt.Sprintf("W %d %s", i, w))
		}
		for _, w := range d.Data.Vars {
			res = append(res, fmt.Sprintf("D %d %s", i, w))
		}
	}
	sos := make([]string, len(bm.Shared_objects))
	for i, so := range bm.Shared_objects {
		sos[i] = so.String()
	}
	{
		if len(sos) == 0 {
			sos = []string{"-"}
		}
		res = append(res, "SO "+strings.Join(sos, " "))
		sl := make([]string, len(bm.Shared_links))
		for i, l := range bm.Shared_links {
			x := make([]string, len(l))
			for j, v := range l {
				x[j] = fmt.Sprint(v)
			}
			sl[i] = "[" + strings.Join(x, ",") + "]"
		}
		if len(sl) == 0 {
			sl = []string{"-"}
		}
		res = append(res, "SL "+strings.Join(sl, " "))
	}
	res = append(res, "II "+bonds(bm.Internal_inputs))
	res = append(res, "IO "+bonds(bm.Internal_outputs))
	lk := make([]string, len(bm.Links))
	for i, l := range bm.Links {
		lk[i] = fmt.Sprint(l)
	}
	if len(lk) == 0 {
		lk = []string{"-"}
	}
	res = append(res, "LK "+strings.Join(lk, " "))
	res = append(res, "E")
	return res
}

// ProbeEntryJump reports which `entry` behaviour the tree under test has: false = the unchanged
// tree (the directive is removed and ignored, execution starts at ROM address 0), true = the
// repaired one (a jump to the entry label is placed at address 0 when the label is not on the
// first instruction).  The oracle models both; it is told which one it is compared with.
func ProbeEntryJump() bool {
	src := "%section p .romtext\n\tinc r0\n\tinc r1\n\tinc r2\n\tentry e\ne:\n\tdec r0\n\tdec r1\n\tdec r2\n%endsection\n%meta cpdef c romcode:p\n%meta bmdef global registersize:8\n"
	bm, _, err := Assemble(src, Options{DisableDynamic: true})
	if err != nil || len(bm.Domains) != 1 {
		return false
	}
	for _, op := range bm.Domains[0].Op { // the source has no jump of its own
		if op.Op_get_name() == "j" {
			return true
		}
	}
	return false
}
