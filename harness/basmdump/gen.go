package basmdump

import (
	"fmt"
	"strconv"
	"strings"

	"bmvh/common"

	"github.com/BondMachineHQ/BondMachine/pkg/procbuilder"
)

// Case is one generated BASM source.
type Case struct {
	Kind          string // ok | malformed:<what> | unfit:<what>
	Text          string
	EntryNotFirst bool // the entry label of some section is not on its first instruction
	MustFail      bool // an operand cannot fit: the tool has to reject the source
}

type gline struct {
	labels []string
	text   string // instruction text, "" for the entry directive placeholder
	entry  bool
	meta   string // line-level metadata ("iomode:sync", "tag:x,iomode:async"): written on a label line of this
	// instruction (`lb: iomode:sync`) or on a label-less line in front of it (`: iomode:sync`)
}

func pickOr(r *common.Rng, xs []string, dflt string) string {
	if r == nil {
		return dflt
	}
	return pick(r, xs)
}

// lineMeta: sometimes a line-level iomode (which overrides the section's and the global one), sometimes with an inert key
func lineMeta(r *common.Rng, num, den int) (meta string, mode string) {
	if !r.Chance(num, den) {
		return "", ""
	}
	mode = pick(r, []string{"async", "sync"})
	meta = "iomode:" + mode
	switch r.Intn(6) {
	case 0:
		meta = "tag:" + pick(r, []string{"x", "hot", "7"}) + "," + meta
	case 1:
		meta += ",tag:" + pick(r, []string{"x", "hot", "7"})
	}
	return
}

type gsection struct {
	typ        string // ".romtext" (default) or ".ramtext"
	name       string
	iomode     string // "", "async", "sync" on the %section line
	lines      []gline
	maxReg     int
	nIn, nOut  int
	entryLabel string
	entryFirst bool
}

func pick(r *common.Rng, xs []string) string { return xs[r.Intn(len(xs))] }

func genLiteral(r *common.Rng, rsize int) string {
	max := (uint64(1) << uint(rsize)) - 1
	var v uint64
	switch r.Intn(6) {
	case 0:
		v = 0
	case 1:
		v = 1
	case 2:
		v = max
	case 3:
		v = max - uint64(r.Intn(3))
	default:
		v = r.Next() & max
		if r.Bool() {
			v &= 15
		}
	}
	// the unsized integer notations of bmnumbers: decimal, 0x (either case), 0b, 0u, 0d
	switch r.Intn(12) {
	case 0:
		return "0x" + strconv.FormatUint(v, 16)
	case 1:
		return "0x" + strings.ToUpper(strconv.FormatUint(v, 16))
	case 2:
		return "0b" + strconv.FormatUint(v, 2)
	case 3:
		return pick(r, []string{"0u", "0d"}) + strconv.FormatUint(v, 10)
	}
	return strconv.FormatUint(v, 10)
}

// genSection builds a random control-flow graph.  effMode is the effective iomode ("" = none:
// then no IO instruction in `mov` form is generated).
func genSection(r *common.Rng, name string, rsize int, effMode string, secMode string) gsection {
	s := gsection{name: name, iomode: secMode}
	n := 2 + r.Intn(11)
	s.maxReg = []int{0, 1, 1, 2, 3, 3, 4, 7, 8}[r.Intn(9)]
	s.nIn = r.Intn(3)
	s.nOut = 1 + r.Intn(2)
	reg := func() string { return "r" + strconv.Itoa(r.Intn(s.maxReg+1)) }
	// labels: the entry label plus a few more, on random lines
	nlab := 1 + r.Intn(3)
	labAt := map[int][]string{}
	names := []string{}
	for k := 0; k < nlab; k++ {
		nm := fmt.Sprintf("lb%d", k)
		if r.Chance(1, 4) {
			nm = fmt.Sprintf("lb%d_%d", k-1, r.Intn(2)) // looks like a derived name of the previous label
		}
		if k == 0 {
			nm = pick(r, []string{"_start", "main", "top", "lb0", "top_0", "main_1"})
		}
		at := r.Intn(n)
		if k == 0 && r.Chance(3, 4) {
			at = 0
		}
		labAt[at] = append(labAt[at], nm)
		names = append(names, nm)
	}
	s.entryLabel = names[0]
	// labels written on the `entry` directive line itself (they denote the instruction that follows it):
	// the entry symbol, another label (also a jump target), or both
	dirLabels := []string{}
	dirVariant := r.Intn(8) // 0: entry symbol moves to the directive, 1: another label, 2: both, else none
	if dirVariant == 1 || dirVariant == 2 {
		dirLabels = append(dirLabels, "dl0")
		names = append(names, "dl0")
	}
	for at, ls := range labAt {
		for _, l := range ls {
			if l == s.entryLabel {
				s.entryFirst = at == 0
			}
		}
	}
	forms := []string{"rset", "movn", "cpy", "movr", "inc", "dec", "clr", "add", "mult", "div", "nop", "j", "jz", "out", "out"}
	if s.nIn > 0 {
		forms = append(forms, "in", "in")
	}
	for i := 0; i < n; i++ {
		f := pick(r, forms)
		if i == n-1 && r.Chance(4, 5) {
			f = "j"
		}
		var t string
		meta := ""
		switch f {
		case "rset":
			t = "rset " + reg() + ", " + genLiteral(r, rsize)
		case "movn":
			t = "mov " + reg() + ", " + genLiteral(r, rsize)
		case "cpy":
			t = "cpy " + reg() + ", " + reg()
		case "movr":
			t = "mov " + reg() + ", " + reg()
		case "inc", "dec", "clr":
			t = f + " " + reg()
		case "add", "mult", "div":
			t = f + " " + reg() + ", " + reg()
		case "nop":
			t = pick(r, []string{"nop", "noop"})
		case "j":
			t = pick(r, []string{"j", "j", "jmp"}) + " " + pick(r, names)
		case "jz":
			t = "jz " + reg() + ", " + pick(r, names)
		case "in":
			p := "i" + strconv.Itoa(r.Intn(s.nIn))
			lm, _ := lineMeta(r, 1, 3)
			switch {
			case lm != "":
				t = "mov " + reg() + ", " + p // the line's own mode decides, whatever the section says (or does not say)
				meta = lm
			case effMode != "" && r.Chance(3, 4):
				t = "mov " + reg() + ", " + p
			case r.Bool():
				t = "i2r " + reg() + ", " + p
			default:
				t = "i2rw " + reg() + ", " + p
			}
		case "out":
			p := "o" + strconv.Itoa(r.Intn(s.nOut))
			lm, _ := lineMeta(r, 1, 3)
			switch {
			case lm != "":
				t = "mov " + p + ", " + reg()
				meta = lm
			case effMode != "" && r.Chance(3, 4):
				t = "mov " + p + ", " + reg()
			case r.Bool():
				t = "r2o " + reg() + ", " + p
			default:
				t = "r2owa " + reg() + ", " + p
			}
		}
		if meta == "" && f != "in" && f != "out" {
			meta, _ = lineMeta(r, 1, 12) // metadata on a line it means nothing for: must not leak to another line
		}
		s.lines = append(s.lines, gline{labels: labAt[i], text: t, meta: meta})
	}
	// the entry directive: first line (usual), or anywhere else
	pos := 0
	if r.Chance(1, 3) {
		pos = r.Intn(n + 1)
	}
	if len(dirLabels) > 0 && r.Chance(1, 2) {
		pos = 0 // a section that opens with a labelled directive
	}
	if (dirVariant == 0 || dirVariant == 2) && pos < n {
		// move the entry symbol from its instruction onto the directive
		for i := range s.lines {
			var keep []string
			for _, lb := range s.lines[i].labels {
				if lb != s.entryLabel {
					keep = append(keep, lb)
				}
			}
			s.lines[i].labels = keep
		}
		dirLabels = append(dirLabels, s.entryLabel)
		s.entryFirst = pos == 0
	}
	if len(dirLabels) > 0 && pos >= n {
		pos = n - 1 // keep an instruction after a labelled directive (else the tool rightly rejects)
	}
	e := gline{entry: true, text: "entry " + s.entryLabel, labels: dirLabels}
	s.lines = append(s.lines[:pos], append([]gline{e}, s.lines[pos:]...)...)
	return s
}

func (s gsection) render(b *strings.Builder, r *common.Rng) {
	typ := s.typ
	if typ == "" {
		typ = ".romtext"
	}
	b.WriteString("%section " + s.name + " " + typ)
	if s.iomode != "" {
		b.WriteString(" iomode:" + s.iomode)
	}
	b.WriteString("\n")
	for _, l := range s.lines {
		onLabel := -1
		if l.meta != "" && len(l.labels) > 0 && r != nil && r.Bool() {
			onLabel = r.Intn(len(l.labels))
		}
		for i, lb := range l.labels {
			if i == onLabel {
				b.WriteString(lb + ": " + l.meta + "\n")
			} else {
				b.WriteString(lb + ":\n")
			}
		}
		if l.meta != "" && onLabel < 0 {
			sp := " "
			if r != nil {
				sp = pick(r, []string{" ", " ", "  ", "\t"})
			}
			b.WriteString(":" + sp + strings.ReplaceAll(l.meta, ",", pickOr(r, []string{",", ", "}, ",")) + "\n")
		}
		ind := "\t"
		if r != nil && r.Chance(1, 4) {
			ind = "        "
		}
		b.WriteString(ind + l.text)
		if r != nil && r.Chance(1, 8) {
			b.WriteString("   ; comment")
		}
		b.WriteString("\n")
	}
	b.WriteString("%endsection\n")
}

// genRelaySection: a dataflow-shaped program — every input is read, combined and written to the
// outputs in a loop — so that a wrongly wired bond changes what comes out of the machine.
func genRelaySection(r *common.Rng, name string, rsize int, secMode string, source bool) gsection {
	s := gsection{name: name, iomode: secMode}
	s.nIn = r.Intn(3)
	if source && r.Bool() {
		s.nIn = 0
	}
	s.nOut = 1 + r.Intn(2)
	s.maxReg = s.nIn + 1
	s.entryLabel = pick(r, []string{"_start", "top", "loop"})
	s.entryFirst = true
	ls := []gline{{entry: true, text: "entry " + s.entryLabel}}
	first := true
	add := func(t string) {
		g := gline{text: t}
		if strings.HasPrefix(t, "mov ") && (strings.Contains(t, ", i") || strings.HasPrefix(t, "mov o")) {
			g.meta, _ = lineMeta(r, 1, 5)
		}
		if first {
			g.labels = []string{s.entryLabel}
			first = false
		}
		ls = append(ls, g)
	}
	if s.nIn == 0 {
		add("rset r0, " + genLiteral(r, rsize))
		add("inc r1")
	}
	for i := 0; i < s.nIn; i++ {
		add(fmt.Sprintf("mov r%d, i%d", i, i))
	}
	if s.nIn == 2 && r.Bool() {
		add(pick(r, []string{"add", "add", "mult", "div"}) + " r0, r1")
	}
	if r.Bool() {
		add(fmt.Sprintf("inc r%d", s.maxReg))
	}
	for o := 0; o < s.nOut; o++ {
		add(fmt.Sprintf("mov o%d, r%d", o, r.Intn(s.maxReg+1)))
	}
	add(pick(r, []string{"j ", "jmp "}) + s.entryLabel)
	s.lines = ls
	return s
}

type gio struct {
	name, cp, typ string
	index          int
}

// genTemplCase: 2..3 processors that run ONE templated section, each with its own `cpdef` parameters: an operand given
// by a parameter (`{{.Params.first}}`), blocks of lines kept only for the processors that have a parameter
// (`{{if .Params.skip}}` … `{{end}}`, values "1", "yes" and "0": a Go template tests a string for non-emptiness), an
// operand inside such a block.  Parameters are set on some processors and omitted on others, in any relation to the
// processors' name order; sometimes one more processor with parameters runs a plain section, or one without runs another.
func genTemplCase(r *common.Rng) Case {
	c := Case{Kind: "ok:templated"}
	rsize := []int{8, 16, 32}[r.Intn(3)]
	mode := pick(r, []string{"async", "sync"})
	names := []string{"cpa", "cpb", "cpc", "north", "m2", "zz"}
	for i := len(names) - 1; i > 0; i-- {
		j := r.Intn(i + 1)
		names[i], names[j] = names[j], names[i]
	}
	ncp := 2 + r.Intn(2)
	blockA := pick(r, []string{"skip", "twice", "fast"})
	blockB := pick(r, []string{"extra", "dst"})
	// line-level metadata in front of a line, in the label-less form (kept when the section is re-rendered per processor)
	withMeta := func(line string, num, den int) string {
		if m, _ := lineMeta(r, num, den); m != "" {
			return ": " + m + "\n\t" + line
		}
		return line
	}
	plainOp := func() string {
		return withMeta(pick(r, []string{"inc r0", "dec r0", "inc r1", "add r0, r1", "cpy r1, r0", "nop", "clr r1", "mult r0, r1"}), 1, 8)
	}
	var b strings.Builder
	b.WriteString("%section tsec .romtext iomode:" + mode + "\n\tentry go\ngo:\n")
	b.WriteString("\t" + pick(r, []string{"mov r0, {{.Params.first}}", "rset r0, {{.Params.first}}", "rset r1, {{.Params.first}}"}) + "\n")
	b.WriteString("again:\n")
	for n := 1 + r.Intn(3); n > 0; n-- {
		b.WriteString("\t" + plainOp() + "\n")
	}
	b.WriteString("{{if .Params." + blockA + "}}\n")
	for n := 1 + r.Intn(3); n > 0; n-- {
		b.WriteString("\t" + plainOp() + "\n")
	}
	b.WriteString("{{end}}\n")
	if m, _ := lineMeta(r, 1, 2); m != "" {
		if r.Bool() {
			b.WriteString("send: " + m + "\n") // on a label line
		} else {
			b.WriteString(": " + m + "\n")
		}
	}
	b.WriteString("\tmov o0, r0\n")
	useB := r.Bool()
	if useB {
		b.WriteString("{{if .Params." + blockB + "}}\n\t" + withMeta(pick(r, []string{"mov {{.Params."+blockB+"}}, r0", "add r0, {{.Params."+blockB+"}}", "mov o0, {{.Params."+blockB+"}}"}), 1, 3) + "\n{{end}}\n")
	}
	b.WriteString("\t" + pick(r, []string{"j again", "jmp again", "jz r1, again\n\tj go"}) + "\n%endsection\n")
	hasA := make([]bool, ncp)
	for {
		some, none := false, false
		for i := range hasA {
			hasA[i] = r.Bool()
			some = some || hasA[i]
			none = none || !hasA[i]
		}
		if some && none {
			break
		}
	}
	metas := []string{}
	for i := 0; i < ncp; i++ {
		keys := []string{"romcode:tsec", "first:" + genLiteral(r, rsize)}
		if hasA[i] {
			keys = append(keys, blockA+":"+pick(r, []string{"1", "yes", "0"}))
		}
		if useB && r.Bool() {
			keys = append(keys, blockB+":"+pick(r, []string{"r1", "r0", "r2"}))
		}
		for k := len(keys) - 1; k > 0; k-- {
			j := r.Intn(k + 1)
			keys[k], keys[j] = keys[j], keys[k]
		}
		metas = append(metas, "%meta cpdef "+names[i]+" "+strings.Join(keys, ", "))
	}
	total := ncp
	if r.Chance(1, 3) {
		// one more processor on a plain section: with a parameter it gets a copy of it, without it runs it as it is
		b.WriteString("%section plain1 .romtext iomode:" + mode + "\n\tentry p\np:\n\tinc r0\n\t" + withMeta("mov o0, r0", 2, 3) + "\n\tj p\n%endsection\n")
		cp := "%meta cpdef " + names[ncp] + " romcode:plain1"
		if r.Bool() {
			cp += ", first:" + genLiteral(r, rsize)
		}
		metas = append(metas, cp)
		total++
	}
	for i := len(metas) - 1; i > 0; i-- {
		j := r.Intn(i + 1)
		metas[i], metas[j] = metas[j], metas[i]
	}
	var o strings.Builder
	o.WriteString("%meta bmdef global registersize:" + strconv.Itoa(rsize) + "\n")
	metaFirst := r.Bool()
	wr := func() {
		for _, m := range metas {
			o.WriteString(m + "\n")
		}
		for i := 0; i < total; i++ {
			o.WriteString(ioattPair(r, fmt.Sprintf("out%d", i), names[i], "output", 0, i))
		}
	}
	if metaFirst {
		wr()
	}
	o.WriteString(b.String())
	if !metaFirst {
		wr()
	}
	c.Text = o.String()
	return c
}

// GenCase generates one source: mostly well formed, sometimes malformed or with an unfit operand.
func GenCase(r *common.Rng) Case {
	if r.Chance(1, 8) {
		return genTemplCase(r)
	}
	rsize := []int{8, 16, 32}[r.Intn(3)]
	gmode := pick(r, []string{"", "async", "sync", "sync"})
	ncp := []int{1, 1, 1, 2, 2, 3}[r.Intn(6)]
	nsec := ncp
	if ncp >= 2 && r.Chance(1, 5) {
		nsec = ncp - 1 // the last two processors run the same section
	}
	relay := ncp >= 2 && r.Chance(1, 2) // dataflow-shaped programs: what arrives on the inputs reaches the outputs
	secs := []gsection{}
	collide := r.Chance(1, 3)
	collBase := pick(r, []string{"stage", "prog", "code", "main", "sec0"})
	for k := 0; k < nsec; k++ {
		sm := ""
		if r.Chance(1, 3) {
			sm = pick(r, []string{"async", "sync"})
		}
		eff := sm
		if eff == "" {
			eff = gmode
		}
		name := pick(r, []string{"prog", "code", "main", "sec"}) + strconv.Itoa(k)
		if collide {
			// names the tool itself would generate for the normalised copy of another section (`<name>_<n>`)
			switch {
			case k == 0 && nsec == 1:
				name = collBase + "_0" // the plain name goes to a section no processor runs (below)
			case k == 0:
				name = collBase
			case k == 1:
				name = collBase + pick(r, []string{"_0", "_0", "_0", "_1"})
			default:
				name = secs[1].name + "_0"
				if r.Bool() {
					name = collBase + "_2"
					if secs[1].name == collBase+"_1" {
						name = collBase + "_0"
					}
				}
			}
		}
		if relay && eff != "" {
			secs = append(secs, genRelaySection(r, name, rsize, sm, k == 0))
		} else {
			secs = append(secs, genSection(r, name, rsize, eff, sm))
		}
	}
	// a section with another program that no processor runs, under the plain name
	var decoys []gsection
	if collide && nsec == 1 {
		dm := pick(r, []string{"async", "sync"})
		decoys = append(decoys, genSection(r, collBase, rsize, dm, dm))
	}
	// processor names in any alphabetical relation to their source order (the tool numbers processors by name);
	// some look like names the tool could derive from another one
	cpNames := []string{"cpu", "worker", "sink", "alpha", "zed", "m1", "cpu_0", "zed_1"}
	for i := len(cpNames) - 1; i > 0; i-- {
		j := r.Intn(i + 1)
		cpNames[i], cpNames[j] = cpNames[j], cpNames[i]
	}
	cpSec := []int{0, 1, 2}
	for c := range cpSec {
		if cpSec[c] >= nsec {
			cpSec[c] = nsec - 1
		}
	}
	ios := []gio{}
	ext := map[string]int{"input": 0, "output": 0}
	link := 0
	pair := func(nm string, a, b gio) {
		a.name, b.name = nm, nm
		if r.Bool() { // either end may be written first
			a, b = b, a
		}
		ios = append(ios, a, b)
	}
	for c := 0; c < ncp; c++ {
		s := secs[cpSec[c]]
		for i := 0; i < s.nIn; i++ {
			switch {
			case r.Chance(1, 8):
				// left unconnected
			case ncp >= 2 && r.Chance(2, 3):
				// driven by an output of another processor: any index (fan-in on this processor, fan-out on that one)
				d := r.Intn(ncp)
				if d == c {
					d = (d + 1) % ncp
				}
				pair(fmt.Sprintf("lnk%d", link), gio{cp: cpNames[d], typ: "output", index: r.Intn(secs[cpSec[d]].nOut)},
					gio{cp: cpNames[c], typ: "input", index: i})
				link++
			default:
				pair(fmt.Sprintf("in%d_%d", c, i), gio{cp: "bm", typ: "input", index: ext["input"]}, gio{cp: cpNames[c], typ: "input", index: i})
				ext["input"]++
			}
		}
		for o := 0; o < s.nOut; o++ {
			if r.Chance(1, 5) {
				continue
			}
			pair(fmt.Sprintf("out%d_%d", c, o), gio{cp: cpNames[c], typ: "output", index: o}, gio{cp: "bm", typ: "output", index: ext["output"]})
			ext["output"]++
		}
	}
	// order of the ioatt lines is irrelevant to pairing by name: shuffle lightly
	if r.Chance(1, 3) && len(ios) > 2 {
		i, j := r.Intn(len(ios)), r.Intn(len(ios))
		ios[i], ios[j] = ios[j], ios[i]
	}
	c := Case{Kind: "ok"}
	bmdef := "%meta bmdef global registersize:" + strconv.Itoa(rsize)
	if gmode != "" {
		bmdef += ", iomode:" + gmode
	}
	cpdefs := []string{}
	for k := 0; k < ncp; k++ {
		d := "%meta cpdef " + cpNames[k] + " romcode:" + secs[cpSec[k]].name
		if r.Chance(1, 5) {
			// a user-defined key makes the processor a parameterised one: it runs a re-rendered copy of its section (labels,
			// line-level metadata and all); the section it named stays when a processor without parameters runs it too
			d = "%meta cpdef " + cpNames[k] + " " + pick(r, []string{"gain:3, ", "first:40, ", "mode_x:r1, "}) + "romcode:" + secs[cpSec[k]].name
			if r.Bool() {
				d = "%meta cpdef " + cpNames[k] + " romcode:" + secs[cpSec[k]].name + pick(r, []string{", gain:3", ", first:40", ", tag:0"})
			}
		}
		cpdefs = append(cpdefs, d)
	}

	// ---- malformed / unfit variants ----
	if r.Chance(1, 5) {
		s := &secs[r.Intn(len(secs))]
		idx := func() int { // index of a non-entry line
			for {
				i := r.Intn(len(s.lines))
				if !s.lines[i].entry {
					return i
				}
			}
		}
		switch r.Intn(15) {
		case 0:
			c.Kind = "malformed:duplabel"
			i := idx()
			s.lines[i].labels = append(s.lines[i].labels, s.entryLabel)
		case 1:
			c.Kind = "malformed:noentry"
			var ls []gline
			for _, l := range s.lines {
				if !l.entry {
					ls = append(ls, l)
				}
			}
			s.lines = ls
		case 2:
			c.Kind = "malformed:twoentries"
			s.lines = append(s.lines, gline{entry: true, text: "entry " + s.entryLabel})
		case 3:
			c.Kind = "malformed:entrylabel"
			for i := range s.lines {
				if s.lines[i].entry {
					s.lines[i].text = "entry nosuchlabel"
				}
			}
		case 4:
			c.Kind = "malformed:unknownlabel"
			s.lines[idx()].text = "j nowhere"
		case 5:
			c.Kind = "malformed:badoperand"
			s.lines[idx()].text = pick(r, []string{"inc 5", "add r0, 3", "cpy r0", "mov 3, r0", "inc lb0", "clr o0", "j r0", "jz 2, lb0", "frob r0"})
		case 6:
			c.Kind = "malformed:nosection"
			cpdefs[0] = "%meta cpdef " + cpNames[0] + " romcode:absent"
		case 7:
			c.Kind = "malformed:rsize"
			bmdef = pick(r, []string{"%meta bmdef global iomode:sync", "%meta bmdef global registersize:0", "%meta bmdef global registersize:300"})
		case 8:
			c.Kind = "unfit:immediate"
			c.MustFail = true
			v := (uint64(1) << uint(rsize)) + uint64(r.Intn(3))
			s.lines[idx()].text = pick(r, []string{"rset", "mov"}) + " r0, " + strconv.FormatUint(v, 10)
		case 9:
			c.Kind = "malformed:noregs"
			var ls []gline
			for _, l := range s.lines {
				if l.entry {
					ls = append(ls, l)
				} else {
					ls = append(ls, gline{labels: l.labels, text: pick(r, []string{"nop", "j " + s.entryLabel})})
				}
			}
			s.lines = ls
		case 10:
			c.Kind = "unfit:jumpbeyondrom"
			c.MustFail = true
			n := len(s.lines) // >= number of instructions + 1
			bits := 1
			for (1 << uint(bits)) < n {
				bits++
			}
			s.lines[idx()].text = pick(r, []string{"j ", "jz r0, "}) + strconv.Itoa((1<<uint(bits))+r.Intn(4))
		case 11:
			c.Kind = "malformed:nomode"
			// a mov IO form without any iomode in scope
			gmode = ""
			bmdef = "%meta bmdef global registersize:" + strconv.Itoa(rsize)
			for i := range secs {
				secs[i].iomode = ""
			}
			s.lines[idx()].text = "mov o0, r0"
		case 12:
			c.Kind = "malformed:labelonentry"
			for i := range s.lines {
				if s.lines[i].entry {
					s.lines[i].labels = []string{"onentry"}
				}
			}
			if r.Bool() {
				s.lines[idx()].text = "j onentry"
			}
		case 13:
			c.Kind = "ok:literaltarget"
			// a numeric jump target inside the program (accepted; outside the semantic subset)
			s.lines[idx()].text = pick(r, []string{"j 0", "j 1", "jz r0, 0"})
		case 14:
			c.Kind = "unfit:romsize"
			c.MustFail = true
			// forced ROM size smaller than the program
			cpdefs[0] += ", romsize:1"
			for len(secs[cpSec[0]].lines) < 5 {
				secs[cpSec[0]].lines = append(secs[cpSec[0]].lines, gline{text: "inc r0"})
			}
		}
	}
	for k := 0; k < ncp; k++ {
		if !secs[cpSec[k]].entryFirst {
			c.EntryNotFirst = true
		}
	}
	var b strings.Builder
	metaFirst := r.Chance(1, 4)
	metas := func() {
		for _, l := range cpdefs {
			b.WriteString(l + "\n")
		}
		for _, io := range ios {
			fmt.Fprintf(&b, "%%meta ioatt %s cp:%s, type:%s, index:%d\n", io.name, io.cp, io.typ, io.index)
		}
		b.WriteString(bmdef + "\n")
	}
	if metaFirst {
		metas()
	}
	decoyFirst := r.Bool()
	if decoyFirst {
		for _, s := range decoys {
			s.render(&b, r)
		}
	}
	for _, s := range secs {
		s.render(&b, r)
		if r.Chance(1, 3) {
			b.WriteString("\n")
		}
	}
	if !decoyFirst {
		for _, s := range decoys {
			s.render(&b, r)
		}
	}
	if !metaFirst {
		metas()
	}
	c.Text = b.String()
	return c
}

// GenExtCase generates a source that uses constructs outside the C05 model but inside what the
// real front-end accepts, for the per-instance validation of C16: processors with both a ROM and
// a RAM code section (execution mode hy / vn) whose sections share opcodes, and ROM / RAM data
// sections whose sizes straddle the powers of two (code + data = 2^k-1, 2^k, 2^k+1).
func GenExtCase(r *common.Rng) Case {
	sel := r.Intn(8)
	if sel < 6 && r.Chance(1, 4) {
		sel = 6 // (the ROM / RAM sizing cases below)
	}
	switch sel {
	case 0, 1:
		return GenSoCase(r)
	case 2, 3:
		return GenUnfitCase(r)
	case 4, 5:
		return GenDataCase(r)
	}
	rsize := []int{8, 16, 32}[r.Intn(3)]
	var b strings.Builder
	c := Case{}
	mode := pick(r, []string{"async", "sync"})
	rom := genSection(r, "romc", rsize, mode, mode)
	// noLit: no immediate load anywhere, so that a jump (register + ROM address) is the widest instruction and the word
	// width follows the ROM address width; the data section is then large (2^6 / 2^7 cells in a few lines)
	noLit := r.Chance(1, 2)
	if noLit {
		for i := range rom.lines {
			t := rom.lines[i].text
			last := t[strings.LastIndex(t, " ")+1:]
			if strings.HasPrefix(t, "rset ") || (strings.HasPrefix(t, "mov r") && last != "" && last[0] >= '0' && last[0] <= '9') {
				rom.lines[i].text = "inc r0"
			}
		}
		rom.lines = append(rom.lines, gline{text: "jz r0, " + rom.entryLabel}, gline{text: "j " + rom.entryLabel})
	} else {
		// make sure the word is at least 8 bits wide (needed by data sections) and that a register is used
		rom.lines = append(rom.lines, gline{text: "rset r0, " + genLiteral(r, rsize)})
	}
	ncode := 0
	for _, l := range rom.lines {
		if !l.entry {
			ncode++
		}
	}
	cp := "%meta cpdef cpu romcode:romc"
	sel = r.Intn(3)
	if noLit {
		sel = 1
	}
	switch sel {
	case 0:
		c.Kind = "ext:hy"
		ram := genSection(r, "ramc", rsize, mode, mode)
		ram.typ = ".ramtext"
		rom.render(&b, r)
		ram.render(&b, r)
		cp += ", ramcode:ramc, execmode:" + pick(r, []string{"hy", "hy", "vn"})
	default:
		c.Kind = "ext:romdata"
		k := 2 + r.Intn(4)
		if noLit {
			c.Kind = "ext:romdata-jumpwidest"
			k = 6 + r.Intn(2)
		}
		for (1<<uint(k))-1-ncode < 1 {
			k++
		}
		total := (1 << uint(k)) - 1 + r.Intn(3) // 2^k-1, 2^k, 2^k+1
		ndata := total - ncode
		rom.render(&b, r)
		vals := make([]string, ndata)
		for i := range vals {
			vals[i] = fmt.Sprintf("0x%02x", r.Intn(256))
		}
		// one or two data lines
		cut := ndata
		if ndata > 2 && r.Bool() {
			cut = 1 + r.Intn(ndata-1)
		}
		b.WriteString("%section datao .romdata\n\tv1 db " + strings.Join(vals[:cut], ", ") + "\n")
		if cut < ndata {
			b.WriteString("\tv2 db " + strings.Join(vals[cut:], ", ") + "\n")
		}
		b.WriteString("%endsection\n")
		cp += ", romdata:datao"
		withRomsize := !noLit && r.Chance(3, 4)
		if withRomsize {
			// an explicit ROM depth next to the data section: too small (the tool must refuse or the machine must still hold
			// code + data), exact, or generous
			cp += ", romsize:" + strconv.Itoa([]int{k - 1, k, k, k + 1, k + 2}[r.Intn(5)])
		}
		if !noLit && r.Bool() {
			c.Kind = "ext:romdata+ramdata"
			nr := []int{1, 3, 4, 5, 7, 8, 9}[r.Intn(7)]
			rv := make([]string, nr)
			for i := range rv {
				rv[i] = fmt.Sprintf("0x%02x", r.Intn(256))
			}
			b.WriteString("%section dataa .ramdata\n\tw1 db " + strings.Join(rv, ", ") + "\n%endsection\n")
			cp += ", ramdata:dataa"
		}
		if withRomsize {
			c.Kind += "+romsize"
		}
	}
	b.WriteString(cp + "\n")
	for o := 0; o < rom.nOut; o++ {
		b.WriteString(ioattPair(r, fmt.Sprintf("xo%d", o), "cpu", "output", o, o))
	}
	b.WriteString("%meta bmdef global registersize:" + strconv.Itoa(rsize) + "\n")
	c.Text = b.String()
	return c
}

// ---- shared objects ------------------------------------------------------------------------------

type soKind struct {
	kind, constraint, short string
	ops                     []string // instruction templates: %s = object operand (short+index), %r = a register
}

var soKinds = []soKind{
	{"queue", "queue:8", "q", []string{"mov %s, %r", "r2q %r, %s", "mov %r, %s", "q2r %r, %s"}},
	{"stack", "stack:4", "st", []string{"mov %s, %r", "mov %r, %s"}},
	{"kbd", "kbd:4", "k", []string{"mov %r, %s"}},
	{"lfsr8", "lfsr8:7", "lfsr8", []string{"mov %r, %s"}},
	{"uart", "uart:115200:8", "u", []string{"mov %s, %r", "mov %r, %s"}},
	{"vtextmem", "vtextmem:0:0:0:8:4", "vtm", []string{"mov %s:3, %r"}},
}

// GenSoCase: 2..3 processors sharing objects of every kind the front-end can declare (`sodef` /
// `soatt`), each processor using the objects attached to it.  Processor names come in any
// alphabetical relation to the order in which objects are attached.
func GenSoCase(r *common.Rng) Case {
	c := Case{Kind: "ext:so"}
	rsize := []int{8, 16, 32}[r.Intn(3)]
	ncp := 2 + r.Intn(2)
	names := []string{"cpa", "cpb", "cpc", "zz", "m0"}
	for i := len(names) - 1; i > 0; i-- {
		j := r.Intn(i + 1)
		names[i], names[j] = names[j], names[i]
	}
	names = names[:ncp]
	nso := 1 + r.Intn(4)
	type so struct {
		name string
		k    soKind
	}
	sos := []so{}
	for i := 0; i < nso; i++ {
		sos = append(sos, so{fmt.Sprintf("so%d", i), soKinds[r.Intn(len(soKinds))]})
	}
	// attachments: per processor, an ordered list of object ids (some processors may have none)
	att := make([][]int, ncp)
	for i := range sos {
		n := 0
		for cpi := 0; cpi < ncp; cpi++ {
			if r.Chance(1, 2) {
				att[cpi] = append(att[cpi], i)
				n++
			}
		}
		if n == 0 {
			cpi := r.Intn(ncp)
			att[cpi] = append(att[cpi], i)
		}
	}
	var b strings.Builder
	b.WriteString("%meta bmdef global registersize:" + strconv.Itoa(rsize) + "\n")
	for cpi := 0; cpi < ncp; cpi++ {
		fmt.Fprintf(&b, "%%section sec%d .romtext iomode:async\n\tentry _start\n_start:\n\trset r0, %s\n", cpi, genLiteral(r, 8))
		perKind := map[string]int{}
		for _, id := range att[cpi] {
			k := sos[id].k
			operand := k.short + strconv.Itoa(perKind[k.kind])
			perKind[k.kind]++
			for n := 1 + r.Intn(2); n > 0; n-- {
				t := pick(r, k.ops)
				t = strings.ReplaceAll(strings.ReplaceAll(t, "%s", operand), "%r", "r"+strconv.Itoa(r.Intn(3)))
				b.WriteString("\t" + t + "\n")
			}
		}
		b.WriteString("\tinc r1\n\tmov o0, r1\n\tj _start\n%endsection\n")
	}
	for _, s := range sos {
		fmt.Fprintf(&b, "%%meta sodef %s constraint:%s\n", s.name, s.k.constraint)
	}
	for cpi := 0; cpi < ncp; cpi++ {
		fmt.Fprintf(&b, "%%meta cpdef %s romcode:sec%d\n", names[cpi], cpi)
	}
	for cpi := 0; cpi < ncp; cpi++ {
		for idx, id := range att[cpi] {
			fmt.Fprintf(&b, "%%meta soatt %s cp:%s, index:%d\n", sos[id].name, names[cpi], idx)
		}
		b.WriteString(ioattPair(r, fmt.Sprintf("out%d", cpi), names[cpi], "output", 0, cpi))
	}
	c.Text = b.String()
	return c
}

// ---- operands that cannot fit, of every kind the front-end produces ------------------------------

// GenUnfitCase: one processor whose word has slack (an rset with a wide immediate) and one operand
// that does not fit its field: ROM / RAM address beyond 2^O / 2^L, shared-object index beyond the
// attached objects, an object kind that is not attached, a port index that wraps the 8-bit port
// count, a text-memory position beyond its 8-bit field.  The tool must reject every one of them.
func GenUnfitCase(r *common.Rng) Case {
	c := Case{MustFail: true}
	rsize := []int{8, 16, 32}[r.Intn(3)]
	nfill := r.Intn(4) // 4..7 instructions: O = 2 or 3
	nram := 1 + r.Intn(6)
	lbits := 1
	for (1 << uint(lbits)) < nram {
		lbits++
	}
	nlines := 4 + nfill
	obits := 1
	for (1 << uint(obits)) < nlines {
		obits++
	}
	over := func(bits int) int { return (1 << uint(bits)) + r.Intn(1<<uint(bits)) + (r.Intn(2) << uint(bits+1)) }
	var bad string
	switch r.Intn(8) {
	case 0:
		c.Kind = "unfit:romaddr"
		bad = "mov r0, rom:" + strconv.Itoa(over(obits))
	case 1:
		c.Kind = "unfit:ramaddr-read"
		bad = "mov r0, ram:" + strconv.Itoa(over(lbits))
	case 2:
		c.Kind = "unfit:ramaddr-write"
		bad = "mov ram:" + strconv.Itoa(over(lbits)) + ", r0"
	case 3:
		c.Kind = "unfit:soindex"
		bad = pick(r, []string{"mov r0, q1", "mov q2, r0", "mov r0, q3"})
	case 4:
		c.Kind = "unfit:sokind"
		bad = pick(r, []string{"mov r0, k0", "mov st0, r0", "mov r0, u0", "mov r0, lfsr80"})
	case 5:
		c.Kind = "unfit:port"
		bad = pick(r, []string{"mov r0, i255", "mov r0, i256", "mov o256, r0", "mov o255, r0"})
	case 6:
		c.Kind = "unfit:vtmpos"
		bad = "mov vtm0:" + strconv.Itoa(256+r.Intn(300)) + ", r0"
	case 7:
		c.Kind = "unfit:immediate-wide"
		bad = "rset r0, " + strconv.FormatUint((uint64(1)<<uint(rsize))+uint64(r.Intn(7)), 10)
	}
	var b strings.Builder
	b.WriteString("%meta bmdef global registersize:" + strconv.Itoa(rsize) + "\n")
	b.WriteString("%section code1 .romtext iomode:async\n\tentry _start\n_start:\n")
	lines := []string{"rset r1, " + strconv.Itoa(128+r.Intn(128)), bad, "mov o0, r0"}
	for i := 0; i < nfill; i++ {
		lines = append(lines, pick(r, []string{"inc r1", "dec r1", "add r1, r0", "clr r0"}))
	}
	lines = append(lines, "j _start")
	for _, l := range lines {
		b.WriteString("\t" + l + "\n")
	}
	b.WriteString("%endsection\n%section d1 .ramdata\n\tw1 db ")
	vals := make([]string, nram)
	for i := range vals {
		vals[i] = fmt.Sprintf("0x%02x", r.Intn(256))
	}
	b.WriteString(strings.Join(vals, ", ") + "\n%endsection\n")
	b.WriteString("%meta sodef fifo constraint:queue:8\n%meta sodef vid constraint:vtextmem:0:0:0:8:4\n")
	b.WriteString("%meta cpdef cpu romcode:code1, ramdata:d1\n%meta soatt fifo cp:cpu, index:0\n%meta soatt vid cp:cpu, index:1\n")
	b.WriteString(ioattPair(r, "out0", "cpu", "output", 0, 0))
	c.Text = b.String()
	return c
}

// ---- data sections whose addresses the program uses -----------------------------------------------

// ioattPair: the two `ioatt` lines of one link, written in either order (the pairing is by name)
func ioattPair(r *common.Rng, name, cp, typ string, cpIdx, bmIdx int) string {
	a := fmt.Sprintf("%%meta ioatt %s cp:%s, type:%s, index:%d\n", name, cp, typ, cpIdx)
	b := fmt.Sprintf("%%meta ioatt %s cp:bm, type:%s, index:%d\n", name, typ, bmIdx)
	if r.Bool() {
		return b + a
	}
	return a + b
}

// dataElem: one element of a `db` line: a number (one byte) or a quoted string (one byte per character)
type dataElem struct {
	text  string
	bytes []int
}

// genDataString: a quoted string with letters, digits, single blanks, runs of blanks, tabs (the
// assembler's line reader turns every tab of a line into a blank, inside a string too), commas and
// punctuation.  The language has no escape character: a backslash is a byte like any other.  Never
// produced: `"` (ends the string), `;` (starts a comment anywhere in a line), `{`/`}` (template markers).
func genDataString(r *common.Rng) dataElem {
	pieces := []string{"a", "b", "Z", "q7", "0", "x1y", " ", " ", "  ", "   ", "     ", "\t", " \t ", ",", ", ", ".", "!", "?", "#", "$", "%", "&", "'",
		"(", ")", "*", "+", "-", "/", ":", "<", "=", ">", "@", "[", "]", "\\", "^", "_", "|", "~", "0x1f", "db", "rom:"}
	s := ""
	for n := 1 + r.Intn(5); n > 0; n-- {
		s += pieces[r.Intn(len(pieces))]
	}
	s = strings.ReplaceAll(s, "\\n", "\\m") // the harness protocol writes a line break as \n
	e := dataElem{text: "\"" + s + "\""}
	for _, ch := range []byte(s) {
		if ch == '\t' {
			ch = ' '
		}
		e.bytes = append(e.bytes, int(ch))
	}
	return e
}

// GenDataCase: 1..3 processors running ONE code section, each with a ROM data section of its own
// (the same variables in another order, with other values and sizes — or literally the same
// section): plain `db`, repeated `N:db`, numbers and quoted strings.  The program loads the address
// of a variable (`mov rK, rom:name`), walks a few cells (`inc`) and reads them (`mov rJ, rom:[rK]`),
// sending what it reads to its output.
func GenDataCase(r *common.Rng) Case {
	c := Case{Kind: "ext:data"}
	rsize := []int{8, 16, 32}[r.Intn(3)]
	type dvar struct {
		name  string
		rep   int
		elems []dataElem
	}
	cells := func(v dvar) int {
		n := 0
		for _, e := range v.elems {
			n += len(e.bytes)
		}
		return n * v.rep
	}
	genVar := func(name string) dvar {
		v := dvar{name: name, rep: 1}
		if r.Chance(1, 2) {
			v.rep = 2 + r.Intn(3)
		}
		hasStr := false // sizes stay small: every address fits an 8-bit register
		for n := 1 + r.Intn(3); n > 0; n-- {
			if !hasStr && r.Chance(1, 3) {
				v.elems = append(v.elems, genDataString(r))
				hasStr = true
				if v.rep > 2 {
					v.rep = 2
				}
			} else {
				x := 1 + r.Intn(254)
				v.elems = append(v.elems, dataElem{text: fmt.Sprintf("0x%02x", x), bytes: []int{x}})
			}
		}
		return v
	}
	nv := 2 + r.Intn(3)
	ncp := 1
	if r.Chance(1, 2) {
		ncp = 2 + r.Intn(2)
		c.Kind = "ext:data-shared-code"
	}
	cpNames := []string{"cpu", "alu", "zed", "b2", "core"}
	for i := len(cpNames) - 1; i > 0; i-- {
		j := r.Intn(i + 1)
		cpNames[i], cpNames[j] = cpNames[j], cpNames[i]
	}
	// the data section of each processor
	secs := [][]dvar{}
	secOf := make([]int, ncp)
	for p := 0; p < ncp; p++ {
		if p > 0 && r.Chance(1, 5) {
			secOf[p] = secOf[r.Intn(p)]
			continue
		}
		vars := []dvar{}
		for i := 0; i < nv; i++ {
			vars = append(vars, genVar(fmt.Sprintf("v%d", i)))
		}
		for i := len(vars) - 1; i > 0; i-- { // another order in every section: another offset for the same name
			j := r.Intn(i + 1)
			vars[i], vars[j] = vars[j], vars[i]
		}
		secOf[p] = len(secs)
		secs = append(secs, vars)
	}
	minCells := func(name string) int {
		m := 1 << 30
		for _, vars := range secs {
			for _, v := range vars {
				if v.name == name && cells(v) < m {
					m = cells(v)
				}
			}
		}
		return m
	}
	var b strings.Builder
	b.WriteString("%meta bmdef global registersize:" + strconv.Itoa(rsize) + "\n")
	// the program: a prologue, then a loop whose head is NOT address 0 (a jump target that reads differently on fewer bits)
	var cb strings.Builder
	ncode := 0
	ins := func(t string) {
		cb.WriteString("\t" + t + "\n")
		ncode++
	}
	cb.WriteString("%section code1 .romtext iomode:async\n\tentry _start\n_start:\n")
	loopLabel := "_start"
	if r.Chance(3, 4) {
		for n := 1 + r.Intn(3); n > 0; n-- {
			ins(pick(r, []string{"clr r1", "rset r1, 7", "inc r1", "nop"}))
		}
		loopLabel = "loop"
		cb.WriteString("loop:\n")
	}
	shared := "" // a code label with the name of a data variable: `rom:<name>` still denotes the variable
	if r.Bool() {
		shared = fmt.Sprintf("v%d", r.Intn(nv))
	}
	for n := 2 + r.Intn(3); n > 0; n-- {
		name := fmt.Sprintf("v%d", r.Intn(nv))
		if shared != "" && (r.Chance(1, 3) || n == 1) {
			cb.WriteString(shared + ":\n")
			name = shared
			shared = ""
		}
		ins("mov r0, rom:" + name)
		for k := r.Intn(minCells(name)); k > 0; k-- {
			ins("inc r0")
		}
		ins("mov r1, rom:[r0]")
		ins("mov o0, r1")
	}
	ins("j " + loopLabel)
	cb.WriteString("%endsection\n")
	code := func() { b.WriteString(cb.String()) }
	// code + data straddling a power of two: 2^k-1, 2^k, 2^k+1 cells in all (the ROM address width is computed from the sum)
	if r.Chance(2, 3) {
		for si := range secs {
			have := ncode
			for _, v := range secs[si] {
				have += cells(v)
			}
			k := 2
			for (1<<uint(k))-1 <= have {
				k++
			}
			pad := (1 << uint(k)) - 1 + r.Intn(3) - have
			if (1<<uint(k))+1 > 250 {
				continue // keep every address inside an 8-bit register
			}
			v := dvar{name: "pad", rep: 1}
			if pad > 6 {
				v.rep = pad / 2
				for i := 0; i < 2; i++ {
					x := r.Intn(256)
					v.elems = append(v.elems, dataElem{text: fmt.Sprintf("0x%02x", x), bytes: []int{x}})
				}
				secs[si] = append(secs[si], v)
				pad -= 2 * v.rep
				v = dvar{name: "pad2", rep: 1}
			}
			for i := 0; i < pad; i++ {
				x := r.Intn(256)
				v.elems = append(v.elems, dataElem{text: fmt.Sprintf("0x%02x", x), bytes: []int{x}})
			}
			if len(v.elems) > 0 {
				secs[si] = append(secs[si], v)
			}
		}
	}
	codeFirst := r.Bool()
	if codeFirst {
		code()
	}
	for si, vars := range secs {
		fmt.Fprintf(&b, "%%section data%d .romdata\n", si+1)
		for _, v := range vars {
			op := "db"
			if v.rep > 1 {
				op = strconv.Itoa(v.rep) + ":db"
			}
			line := "\t" + v.name + pick(r, []string{" ", " ", "\t", "  "}) + op + pick(r, []string{" ", " ", "  ", "\t", "   "})
			for i, e := range v.elems {
				if i > 0 {
					line += pick(r, []string{", ", ", ", ",", " , ", ",  "})
				}
				line += e.text
			}
			b.WriteString(line + "\n")
		}
		b.WriteString("%endsection\n")
	}
	if !codeFirst {
		code()
	}
	for p := 0; p < ncp; p++ {
		fmt.Fprintf(&b, "%%meta cpdef %s romcode:code1, romdata:data%d\n", cpNames[p], secOf[p]+1)
	}
	for p := 0; p < ncp; p++ {
		b.WriteString(ioattPair(r, fmt.Sprintf("out%d", p), cpNames[p], "output", 0, p))
	}
	c.Text = b.String()
	return c
}

// ---- one source per high-level matcher pattern of every opcode ------------------------------------

// OpcodeCases: for every opcode of procbuilder.Allopcodes and every pattern its HLAssemblerMatch offers, a source with
// one instruction of that shape (operands chosen by the pattern's operand types), on a processor that has a ROM and a
// RAM data section and one shared object of every kind attached.  Patterns with an operand type this synthesiser does
// not know are returned in `skipped`.
func OpcodeCases() (cases []Case, names []string, skipped []string) {
	seen := map[string]bool{}
	for _, op := range procbuilder.Allopcodes {
		name := op.Op_get_name()
		names = append(names, name)
		var pats []string
		func() {
			defer func() { recover() }()
			pats = op.HLAssemblerMatch(nil)
		}()
		for _, pat := range pats {
			if seen[pat] {
				continue
			}
			seen[pat] = true
			parts := strings.Split(pat, "::")
			head := strings.Split(parts[0], "--")
			mnem := head[0]
			mode := "async"
			for _, kv := range head[1:] {
				if kv == "iomode=sync" {
					mode = "sync"
				}
			}
			args := []string{}
			ok := true
			nreg := 0
			for _, spec := range parts[1:] {
				f := strings.Split(spec, "--")
				meta := map[string]string{}
				for _, kv := range f[1:] {
					if i := strings.Index(kv, "="); i > 0 {
						meta[kv[:i]] = kv[i+1:]
					}
				}
				if f[0] != "*" {
					args = append(args, f[0])
					continue
				}
				switch meta["type"] {
				case "reg":
					args = append(args, "r"+strconv.Itoa(nreg))
					nreg++
				case "number":
					args = append(args, "1")
				case "input":
					args = append(args, "i0")
				case "output":
					args = append(args, "o0")
				case "rom":
					switch meta["romaddressing"] {
					case "register":
						args = append(args, "rom:[r0]")
					case "symbol":
						args = append(args, "rom:dv")
					default:
						args = append(args, "rom:0")
					}
				case "ram":
					switch meta["ramaddressing"] {
					case "register":
						args = append(args, "ram:[r0]")
					case "symbol":
						args = append(args, "ram:rv")
					default:
						args = append(args, "ram:0")
					}
				case "loc":
					args = append(args, "[r0]")
				case "symbol":
					args = append(args, "s")
				case "somov":
					t := meta["sotype"]
					switch meta["soaddressing"] {
					case "immediate":
						args = append(args, t+"0:3")
					case "register":
						args = append(args, t+"0:[r0]")
					default:
						args = append(args, t+"0")
					}
				default:
					ok = false
				}
			}
			if !ok {
				skipped = append(skipped, pat)
				continue
			}
			var b strings.Builder
			b.WriteString("%meta bmdef global registersize:32\n")
			// the immediate load makes the word wide enough for the data cells and gives the processor a register
			b.WriteString("%section code1 .romtext iomode:" + mode + "\n\tentry s\ns:\n\trset r0, 1\n\t" + mnem)
			if len(args) > 0 {
				b.WriteString(" " + strings.Join(args, ", "))
			}
			b.WriteString("\n\tj s\n%endsection\n")
			b.WriteString("%section dvs .romdata\n\tdv db 0x01, 0x02\n%endsection\n%section rvs .ramdata\n\trv db 0x03, 0x04\n%endsection\n")
			for i, k := range soKinds {
				fmt.Fprintf(&b, "%%meta sodef so%d constraint:%s\n", i, k.constraint)
			}
			if name == "ja" || name == "jcmpa" {
				// jumps into the RAM: only meaningful on a processor that executes from RAM too
				b.WriteString("%section ramc .ramtext iomode:" + mode + "\n\tentry t\nt:\n\trset r0, 2\n\tj t\n%endsection\n")
				b.WriteString("%meta cpdef cpu romcode:code1, ramcode:ramc, romdata:dvs, ramdata:rvs, execmode:hy\n")
			} else {
				b.WriteString("%meta cpdef cpu romcode:code1, romdata:dvs, ramdata:rvs\n")
			}
			for i := range soKinds {
				fmt.Fprintf(&b, "%%meta soatt so%d cp:cpu, index:%d\n", i, i)
			}
			b.WriteString("%meta ioatt in0 cp:bm, type:input, index:0\n%meta ioatt in0 cp:cpu, type:input, index:0\n")
			b.WriteString("%meta ioatt out0 cp:cpu, type:output, index:0\n%meta ioatt out0 cp:bm, type:output, index:0\n")
			cases = append(cases, Case{Kind: "ops:" + name, Text: b.String()})
		}
	}
	return
}
