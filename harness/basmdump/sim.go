package basmdump

import (
	"fmt"
	"sort"
	"strconv"
	"strings"

	"bmvh/common"

	"github.com/BondMachineHQ/BondMachine/pkg/bondmachine"
	"github.com/BondMachineHQ/BondMachine/pkg/procbuilder"
	"github.com/BondMachineHQ/BondMachine/pkg/simbox"
)

// Simulation of one processor of an emitted machine with the real procbuilder.VM, port stimuli
// applied before every VM.Step (same line format as the C01 harness):
//
//	V in=v,.. iv=0/1,.. or=0/1,..             stimulus
//	X pc=.. r=.. o=.. ov=.. ir=.. d=..        state after the step  (| X err | X panic)

func typed(rsize int, v uint64) interface{} {
	switch {
	case rsize <= 8:
		return uint8(v)
	case rsize <= 16:
		return uint16(v)
	case rsize <= 32:
		return uint32(v)
	}
	return v
}

func untyped(x interface{}) uint64 {
	switch v := x.(type) {
	case uint8:
		return uint64(v)
	case uint16:
		return uint64(v)
	case uint32:
		return uint64(v)
	case uint64:
		return v
	}
	return 0
}

func joinU(xs []interface{}) string {
	p := make([]string, len(xs))
	for i, x := range xs {
		p[i] = strconv.FormatUint(untyped(x), 10)
	}
	return strings.Join(p, ",")
}

func joinB(xs []bool) string {
	p := make([]string, len(xs))
	for i, x := range xs {
		if x {
			p[i] = "1"
		} else {
			p[i] = "0"
		}
	}
	return strings.Join(p, ",")
}

func dumpVM(vm *procbuilder.VM) string {
	var d []int
	for k := range vm.DeferredInstructions {
		if strings.HasPrefix(k, "waitRecvI2rw") {
			v, _ := strconv.Atoi(strings.TrimPrefix(k, "waitRecvI2rw"))
			d = append(d, v)
		} else {
			d = append(d, 1000)
		}
	}
	sort.Ints(d)
	ds := make([]string, len(d))
	for i, v := range d {
		ds[i] = strconv.Itoa(v)
	}
	return fmt.Sprintf("X pc=%d r=%s o=%s ov=%s ir=%s d=%s", vm.Pc, joinU(vm.Registers), joinU(vm.Outputs),
		joinB(vm.OutputsValid), joinB(vm.InputsRecv), strings.Join(ds, ","))
}

// Stim is one tick of port stimuli.
type Stim struct {
	In []uint64
	Iv []bool
	Or []bool
}

func (st Stim) Line() string {
	p := make([]string, len(st.In))
	for i, v := range st.In {
		p[i] = strconv.FormatUint(v, 10)
	}
	return fmt.Sprintf("V in=%s iv=%s or=%s", strings.Join(p, ","), joinB(st.Iv), joinB(st.Or))
}

// ParseStim reads a V line back (replay).
func ParseStim(l string) Stim {
	st := Stim{}
	for _, f := range strings.Fields(l)[1:] {
		kv := strings.SplitN(f, "=", 2)
		if len(kv) != 2 {
			continue
		}
		var parts []string
		if kv[1] != "" {
			parts = strings.Split(kv[1], ",")
		}
		switch kv[0] {
		case "in":
			for _, p := range parts {
				v, _ := strconv.ParseUint(p, 10, 64)
				st.In = append(st.In, v)
			}
		case "iv":
			for _, p := range parts {
				st.Iv = append(st.Iv, p == "1")
			}
		case "or":
			for _, p := range parts {
				st.Or = append(st.Or, p == "1")
			}
		}
	}
	return st
}

func applyStim(vm *procbuilder.VM, rsize int, st Stim) {
	for i := range vm.Inputs {
		if i < len(st.In) {
			vm.Inputs[i] = typed(rsize, st.In[i])
		}
		if i < len(st.Iv) {
			vm.InputsValid[i] = st.Iv[i]
		}
	}
	for i := range vm.OutputsRecv {
		if i < len(st.Or) {
			vm.OutputsRecv[i] = st.Or[i]
		}
	}
}

// SimCP steps processor `dom` of the machine for len(stims) ticks (or `steps` generated ticks when
// stims is nil) and returns the V / X lines.
func SimCP(r *common.Rng, bm *bondmachine.Bondmachine, dom int, steps int, stims []Stim) []string {
	res := []string{}
	m := bm.Domains[dom]
	vm := new(procbuilder.VM)
	vm.Mach = m
	ok := common.Guard(func() string {
		if err := vm.Init(); err != nil {
			return "err"
		}
		return "ok"
	})
	if ok != "ok" {
		return []string{"T " + ok}
	}
	res = append(res, "T")
	rsize := int(m.Rsize)
	n, mm := int(m.N), int(m.M)
	cur := Stim{In: make([]uint64, n), Iv: make([]bool, n), Or: make([]bool, mm)}
	cnt := steps
	if stims != nil {
		cnt = len(stims)
	}
	mask := ^uint64(0)
	if rsize < 64 {
		mask = (uint64(1) << uint(rsize)) - 1
	}
	for t := 0; t < cnt; t++ {
		if stims != nil {
			cur = stims[t]
		} else {
			for i := range cur.In {
				if r.Chance(1, 2) {
					v := r.Next() & mask
					if r.Bool() {
						v &= 3 // zero is frequent: jz branches both ways
					}
					cur.In[i] = v
				}
				if r.Chance(1, 3) {
					cur.Iv[i] = !cur.Iv[i]
				}
			}
			for i := range cur.Or {
				if r.Chance(1, 3) {
					cur.Or[i] = !cur.Or[i]
				}
			}
		}
		res = append(res, cur.Line())
		applyStim(vm, rsize, cur)
		x := common.Guard(func() string {
			if _, err := vm.Step(nil); err != nil {
				return "X err"
			}
			return dumpVM(vm)
		})
		if strings.HasPrefix(x, "panic") {
			x = "X panic"
		}
		res = append(res, x)
		if x == "X err" || x == "X panic" {
			break
		}
	}
	return res
}

// SimBM steps the whole emitted machine with the real bondmachine.VM (all processors, bonds and
// external ports) under seeded stimuli on the external ports:
//
//	BT
//	BV in=v,.. iv=0/1,.. or=0/1,..          external inputs (value, valid) and external outputs' recv
//	BX o=v,.. ov=0/1,.. ir=0/1,..           external outputs (value, valid), external inputs' recv after VM.Step
//	X pc=.. r=.. o=.. ov=.. ir=.. d=..      one line per processor, as in SimCP
func SimBM(r *common.Rng, bm *bondmachine.Bondmachine, steps int, stims []Stim) (res []string) {
	defer func() {
		if rec := recover(); rec != nil {
			res = append(res, "BX panic")
		}
	}()
	vm := new(bondmachine.VM)
	vm.Bmach = bm
	if err := vm.Init(); err != nil {
		return []string{"BT err"}
	}
	if err := vm.Launch_processors(new(simbox.Simbox)); err != nil {
		return []string{"BT err"}
	}
	defer vm.Shutdown()
	res = append(res, "BT")
	rsize := int(bm.Rsize)
	mask := ^uint64(0)
	if rsize < 64 {
		mask = (uint64(1) << uint(rsize)) - 1
	}
	cur := Stim{In: make([]uint64, bm.Inputs), Iv: make([]bool, bm.Inputs), Or: make([]bool, bm.Outputs)}
	cnt := steps
	if stims != nil {
		cnt = len(stims)
	}
	for t := 0; t < cnt; t++ {
		if stims != nil {
			cur = stims[t]
		} else {
			for i := range cur.In {
				if r.Chance(1, 2) {
					v := r.Next() & mask
					if r.Bool() {
						v &= 3
					}
					cur.In[i] = v
				}
				if r.Chance(1, 3) {
					cur.Iv[i] = !cur.Iv[i]
				}
			}
			for i := range cur.Or {
				if r.Chance(1, 3) {
					cur.Or[i] = !cur.Or[i]
				}
			}
		}
		res = append(res, "B"+cur.Line())
		for i := 0; i < bm.Inputs && i < len(cur.In); i++ {
			vm.Inputs_regs[i] = typed(rsize, cur.In[i])
			vm.InputsValid[i] = cur.Iv[i]
		}
		for i := 0; i < bm.Outputs && i < len(cur.Or); i++ {
			vm.OutputsRecv[i] = cur.Or[i]
		}
		if _, err := vm.Step(nil); err != nil {
			res = append(res, "BX err")
			break
		}
		res = append(res, fmt.Sprintf("BX o=%s ov=%s ir=%s", joinU(vm.Outputs_regs), joinB(vm.OutputsValid), joinB(vm.InputsRecv)))
		for _, p := range vm.Processors {
			res = append(res, dumpVM(p))
		}
	}
	return res
}
