// Package common: shared helpers of the verification harness (PRNG, line output, panic capture).
package common

import (
	"bufio"
	"fmt"
	"os"
	"strconv"
)

// Rng is a splitmix64 generator: every random choice of a harness run derives from VERIF_SEED.
type Rng struct{ s uint64 }

// NewRng: the seed is scrambled first (two rounds of the output function), otherwise the streams of
// consecutive seeds 1, 2, 3 … would be one splitmix sequence read at offsets 0, 1, 2 ….
func NewRng(seed uint64) *Rng {
	r := &Rng{s: seed ^ 0x5DEECE66D1234567}
	a := r.Next()
	r.s = a ^ (seed << 32) ^ 0xD1B54A32D192ED03
	r.s = r.Next()
	return r
}

func (r *Rng) Next() uint64 {
	r.s += 0x9E3779B97F4A7C15
	z := r.s
	z = (z ^ (z >> 30)) * 0xBF58476D1CE4E5B9
	z = (z ^ (z >> 27)) * 0x94D049BB133111EB
	return z ^ (z >> 31)
}

// Intn returns a value in [0,n); n<=0 gives 0.
func (r *Rng) Intn(n int) int {
	if n <= 0 {
		return 0
	}
	return int(r.Next() % uint64(n))
}

func (r *Rng) Bool() bool { return r.Next()&1 == 1 }

// Chance returns true with probability num/den.
func (r *Rng) Chance(num, den int) bool { return r.Intn(den) < num }

// Seed returns VERIF_SEED (default 1).
func Seed() uint64 {
	if s := os.Getenv("VERIF_SEED"); s != "" {
		if v, err := strconv.ParseUint(s, 10, 64); err == nil {
			return v
		}
	}
	return 1
}

// Out is a line writer flushed per line (a panic must not lose what was already observed).
type Out struct{ w *bufio.Writer }

func NewOut(f *os.File) *Out { return &Out{w: bufio.NewWriterSize(f, 1<<16)} }

func (o *Out) Line(format string, a ...interface{}) {
	fmt.Fprintf(o.w, format, a...)
	o.w.WriteByte('\n')
}
func (o *Out) Flush() { o.w.Flush() }

// Guard runs f and maps a panic to the observable "panic".
func Guard(f func() string) (res string) {
	defer func() {
		if r := recover(); r != nil {
			res = fmt.Sprintf("panic:%v", r)
		}
	}()
	return f()
}

// EnvInt reads an integer environment variable with a default.
func EnvInt(name string, def int) int {
	if s := os.Getenv(name); s != "" {
		if v, err := strconv.Atoi(s); err == nil {
			return v
		}
	}
	return def
}
