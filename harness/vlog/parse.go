package vlog

import (
	"fmt"
	"sort"
)

type parser struct {
	toks []token
	i    int
}

// droppedTasks: display-like system tasks whose call is reduced to a no-op (arguments dropped)
var droppedTasks = map[string]bool{
	"$display": true, "$write": true, "$monitor": true, "$strobe": true,
	"$dumpfile": true, "$dumpvars": true, "$finish": true, "$stop": true,
	"$displayb": true, "$displayh": true, "$fflush": true,
}

func (p *parser) peek() token { return p.toks[p.i] }
func (p *parser) peekN(k int) token {
	if p.i+k < len(p.toks) {
		return p.toks[p.i+k]
	}
	return p.toks[len(p.toks)-1]
}
func (p *parser) advance() token {
	t := p.toks[p.i]
	if p.i < len(p.toks)-1 {
		p.i++
	}
	return t
}
func (p *parser) isOp(s string) bool {
	t := p.peek()
	return t.kind == tOp && t.text == s
}
func (p *parser) isKw(s string) bool {
	t := p.peek()
	return t.kind == tIdent && t.text == s
}
func (p *parser) acceptOp(s string) bool {
	if p.isOp(s) {
		p.advance()
		return true
	}
	return false
}
func (p *parser) acceptKw(s string) bool {
	if p.isKw(s) {
		p.advance()
		return true
	}
	return false
}
func (p *parser) errf(class string, format string, a ...interface{}) error {
	return &Error{p.peek().pos, class, fmt.Sprintf(format, a...)}
}
func (p *parser) expectOp(s string) error {
	if !p.acceptOp(s) {
		return p.errf("syntax", "expected '%s', found %s", s, p.peek())
	}
	return nil
}
func (p *parser) expectKw(s string) error {
	if !p.acceptKw(s) {
		return p.errf("syntax", "expected '%s', found %s", s, p.peek())
	}
	return nil
}

var keywords = map[string]bool{}

func init() {
	for _, k := range []string{"module", "endmodule", "input", "output", "inout", "wire", "reg", "integer",
		"parameter", "localparam", "assign", "always", "initial", "begin", "end", "if", "else", "case",
		"casez", "casex", "endcase", "default", "for", "posedge", "negedge", "or", "signed", "function",
		"endfunction", "task", "endtask", "generate", "endgenerate", "genvar", "while", "repeat", "forever",
		"wait", "fork", "join", "disable", "tri", "supply0", "supply1", "wand", "wor", "real", "time",
		"defparam", "specify", "endspecify", "primitive", "endprimitive", "force", "release", "deassign",
		"event", "realtime", "tri0", "tri1", "triand", "trior", "trireg", "uwire", "automatic"} {
		keywords[k] = true
	}
}

func (p *parser) ident() (string, Pos, error) {
	t := p.peek()
	if t.kind != tIdent || keywords[t.text] {
		return "", t.pos, p.errf("syntax", "expected identifier, found %s", t)
	}
	p.advance()
	return t.text, t.pos, nil
}

// ------------------------------------------------------------------ expressions

var binPrec = map[string]int{
	"||": 1, "&&": 2, "|": 3, "^": 4, "~^": 4, "^~": 4, "&": 5,
	"==": 6, "!=": 6, "===": 6, "!==": 6,
	"<": 7, "<=": 7, ">": 7, ">=": 7,
	"<<": 8, ">>": 8, "<<<": 8, ">>>": 8,
	"+": 9, "-": 9, "*": 10, "/": 10, "%": 10, "**": 11,
}

func (p *parser) expr() (Expr, error) { return p.condExpr() }

func (p *parser) condExpr() (Expr, error) {
	c, err := p.binExpr(1)
	if err != nil {
		return nil, err
	}
	if p.isOp("?") {
		pos := p.advance().pos
		a, err := p.condExpr()
		if err != nil {
			return nil, err
		}
		if err := p.expectOp(":"); err != nil {
			return nil, err
		}
		b, err := p.condExpr()
		if err != nil {
			return nil, err
		}
		return &Cond{pos, c, a, b}, nil
	}
	return c, nil
}

func (p *parser) binExpr(minPrec int) (Expr, error) {
	lhs, err := p.unaryExpr()
	if err != nil {
		return nil, err
	}
	for {
		t := p.peek()
		if t.kind != tOp {
			return lhs, nil
		}
		prec, ok := binPrec[t.text]
		if !ok || prec < minPrec {
			return lhs, nil
		}
		p.advance()
		// all binary operators of the subset are left associative ("**" is not supported)
		if t.text == "**" {
			return nil, &Error{t.pos, "unsupported", "power operator **"}
		}
		rhs, err := p.binExpr(prec + 1)
		if err != nil {
			return nil, err
		}
		lhs = &Binary{t.pos, t.text, lhs, rhs}
	}
}

func (p *parser) unaryExpr() (Expr, error) {
	t := p.peek()
	if t.kind == tOp {
		switch t.text {
		case "!", "~", "-", "+", "&", "|", "^", "~&", "~|", "~^", "^~":
			p.advance()
			x, err := p.unaryExpr()
			if err != nil {
				return nil, err
			}
			return &Unary{t.pos, t.text, x}, nil
		}
	}
	return p.primary()
}

// selects parses any number of [i] / [m:l] / [s+:w] suffixes
func (p *parser) selects(base Expr) (Expr, error) {
	for p.isOp("[") {
		pos := p.advance().pos
		a, err := p.expr()
		if err != nil {
			return nil, err
		}
		switch {
		case p.acceptOp(":"):
			b, err := p.expr()
			if err != nil {
				return nil, err
			}
			base = &Range{pos, base, a, b}
		case p.isOp("+:") || p.isOp("-:"):
			up := p.advance().text == "+:"
			b, err := p.expr()
			if err != nil {
				return nil, err
			}
			base = &IdxRange{pos, base, a, b, up}
		default:
			base = &Index{pos, base, a}
		}
		if err := p.expectOp("]"); err != nil {
			return nil, err
		}
	}
	return base, nil
}

func (p *parser) primary() (Expr, error) {
	t := p.peek()
	switch t.kind {
	case tNum:
		p.advance()
		return &Num{t.pos, t.width, t.val, t.signed}, nil
	case tIdent:
		if keywords[t.text] {
			return nil, p.errf("syntax", "unexpected keyword '%s' in expression", t.text)
		}
		p.advance()
		if p.isOp("(") {
			return nil, &Error{t.pos, "unsupported", "function call " + t.text + "(...)"}
		}
		if p.isOp(".") {
			return nil, &Error{t.pos, "unsupported", "hierarchical name " + t.text + ".…"}
		}
		return p.selects(&Ident{t.pos, t.text})
	case tSys:
		return nil, &Error{t.pos, "unsupported", "system function " + t.text + " in expression"}
	case tStr:
		return nil, &Error{t.pos, "unsupported", "string in expression"}
	case tOp:
		switch t.text {
		case "(":
			p.advance()
			e, err := p.expr()
			if err != nil {
				return nil, err
			}
			if err := p.expectOp(")"); err != nil {
				return nil, err
			}
			return e, nil
		case "{":
			p.advance()
			first, err := p.expr()
			if err != nil {
				return nil, err
			}
			if p.isOp("{") { // replication {n{a,b}}
				p.advance()
				parts, err := p.exprList("}")
				if err != nil {
					return nil, err
				}
				if err := p.expectOp("}"); err != nil {
					return nil, err
				}
				return &Repl{t.pos, first, parts}, nil
			}
			parts := []Expr{first}
			for p.acceptOp(",") {
				e, err := p.expr()
				if err != nil {
					return nil, err
				}
				parts = append(parts, e)
			}
			if err := p.expectOp("}"); err != nil {
				return nil, err
			}
			return &Concat{t.pos, parts}, nil
		}
	}
	return nil, p.errf("syntax", "unexpected %s in expression", t)
}

// exprList parses e {, e} and consumes the closing token `close`
func (p *parser) exprList(close string) ([]Expr, error) {
	var out []Expr
	for {
		e, err := p.expr()
		if err != nil {
			return nil, err
		}
		out = append(out, e)
		if p.acceptOp(",") {
			continue
		}
		if err := p.expectOp(close); err != nil {
			return nil, err
		}
		return out, nil
	}
}

// lvalue: identifier with selects, or a concatenation of lvalues
func (p *parser) lvalue() (Expr, error) {
	t := p.peek()
	if t.kind == tOp && t.text == "{" {
		p.advance()
		var parts []Expr
		for {
			e, err := p.lvalue()
			if err != nil {
				return nil, err
			}
			parts = append(parts, e)
			if p.acceptOp(",") {
				continue
			}
			if err := p.expectOp("}"); err != nil {
				return nil, err
			}
			return &Concat{t.pos, parts}, nil
		}
	}
	name, pos, err := p.ident()
	if err != nil {
		return nil, err
	}
	if p.isOp(".") {
		return nil, &Error{pos, "unsupported", "hierarchical name " + name + ".…"}
	}
	return p.selects(&Ident{pos, name})
}

// ------------------------------------------------------------------ statements

func (p *parser) delay() (Expr, error) {
	// after '#': a number, an identifier, or a parenthesised expression
	t := p.peek()
	switch {
	case t.kind == tNum:
		p.advance()
		return &Num{t.pos, t.width, t.val, t.signed}, nil
	case t.kind == tIdent && !keywords[t.text]:
		p.advance()
		return &Ident{t.pos, t.text}, nil
	case p.isOp("("):
		p.advance()
		e, err := p.expr()
		if err != nil {
			return nil, err
		}
		return e, p.expectOp(")")
	}
	return nil, p.errf("syntax", "bad delay")
}

func (p *parser) assignNoSemi() (*Assign, error) {
	pos := p.peek().pos
	lhs, err := p.lvalue()
	if err != nil {
		return nil, err
	}
	var blocking bool
	switch {
	case p.acceptOp("="):
		blocking = true
	case p.acceptOp("<="):
		blocking = false
	default:
		return nil, p.errf("syntax", "expected '=' or '<=' in assignment, found %s", p.peek())
	}
	var dl Expr
	if p.acceptOp("#") {
		dl, err = p.delay()
		if err != nil {
			return nil, err
		}
	}
	if p.isOp("@") {
		return nil, p.errf("unsupported", "intra-assignment event control")
	}
	rhs, err := p.expr()
	if err != nil {
		return nil, err
	}
	return &Assign{pos, lhs, blocking, dl, rhs}, nil
}

func (p *parser) stmt() (Stmt, error) {
	t := p.peek()
	switch {
	case t.kind == tOp && t.text == ";":
		p.advance()
		return &Null{t.pos}, nil
	case t.kind == tOp && t.text == "#":
		p.advance()
		d, err := p.delay()
		if err != nil {
			return nil, err
		}
		body, err := p.stmt()
		if err != nil {
			return nil, err
		}
		return &Delayed{t.pos, d, body}, nil
	case t.kind == tOp && t.text == "@":
		return nil, p.errf("unsupported", "event control inside a procedural block")
	case t.kind == tSys:
		if !droppedTasks[t.text] {
			return nil, &Error{t.pos, "unsupported", "system task " + t.text}
		}
		p.advance()
		if p.acceptOp("(") { // drop the arguments (balanced parentheses)
			depth := 1
			for depth > 0 {
				u := p.peek()
				if u.kind == tEOF {
					return nil, p.errf("syntax", "unterminated argument list of %s", t.text)
				}
				if u.kind == tOp && u.text == "(" {
					depth++
				}
				if u.kind == tOp && u.text == ")" {
					depth--
				}
				p.advance()
			}
		}
		if err := p.expectOp(";"); err != nil {
			return nil, err
		}
		return &SysTask{t.pos, t.text}, nil
	case t.kind == tIdent:
		switch t.text {
		case "begin":
			return p.block()
		case "if":
			p.advance()
			if err := p.expectOp("("); err != nil {
				return nil, err
			}
			c, err := p.expr()
			if err != nil {
				return nil, err
			}
			if err := p.expectOp(")"); err != nil {
				return nil, err
			}
			th, err := p.stmt()
			if err != nil {
				return nil, err
			}
			var el Stmt
			if p.acceptKw("else") {
				el, err = p.stmt()
				if err != nil {
					return nil, err
				}
			}
			return &If{t.pos, c, th, el}, nil
		case "case":
			return p.caseStmt()
		case "casez", "casex":
			return nil, p.errf("unsupported", "%s (two-state semantics has no don't-care matching)", t.text)
		case "for":
			p.advance()
			if err := p.expectOp("("); err != nil {
				return nil, err
			}
			ini, err := p.assignNoSemi()
			if err != nil {
				return nil, err
			}
			if err := p.expectOp(";"); err != nil {
				return nil, err
			}
			c, err := p.expr()
			if err != nil {
				return nil, err
			}
			if err := p.expectOp(";"); err != nil {
				return nil, err
			}
			st, err := p.assignNoSemi()
			if err != nil {
				return nil, err
			}
			if err := p.expectOp(")"); err != nil {
				return nil, err
			}
			if !ini.Blocking || !st.Blocking {
				return nil, &Error{t.pos, "unsupported", "for loop header must use blocking assignments"}
			}
			body, err := p.stmt()
			if err != nil {
				return nil, err
			}
			return &For{t.pos, ini, c, st, body}, nil
		case "while", "repeat", "forever", "wait", "fork", "disable", "force", "release", "assign", "deassign":
			return nil, p.errf("unsupported", "statement '%s'", t.text)
		}
		if keywords[t.text] {
			return nil, p.errf("syntax", "unexpected keyword '%s' at start of statement", t.text)
		}
		// task enable?  name ;  or name ( … ) ;
		if n := p.peekN(1); n.kind == tOp && (n.text == "(" || n.text == ";") {
			return nil, p.errf("unsupported", "task enable %s", t.text)
		}
		a, err := p.assignNoSemi()
		if err != nil {
			return nil, err
		}
		if err := p.expectOp(";"); err != nil {
			return nil, err
		}
		return a, nil
	case t.kind == tOp && t.text == "{":
		a, err := p.assignNoSemi()
		if err != nil {
			return nil, err
		}
		if err := p.expectOp(";"); err != nil {
			return nil, err
		}
		return a, nil
	}
	return nil, p.errf("syntax", "unexpected %s at start of statement", t)
}

func (p *parser) block() (Stmt, error) {
	pos := p.advance().pos // begin
	b := &Block{P: pos}
	if p.acceptOp(":") {
		name, _, err := p.ident()
		if err != nil {
			return nil, err
		}
		b.Label = name
	}
	// local declarations (integer / reg) are allowed at the head of a block
	for p.isKw("integer") || p.isKw("reg") {
		d, err := p.declItem("none")
		if err != nil {
			return nil, err
		}
		b.Locals = append(b.Locals, d...)
	}
	for !p.isKw("end") {
		if p.peek().kind == tEOF {
			return nil, p.errf("syntax", "missing 'end' for 'begin' at %s", pos)
		}
		s, err := p.stmt()
		if err != nil {
			return nil, err
		}
		b.Stmts = append(b.Stmts, s)
	}
	p.advance()
	if p.acceptOp(":") { // end : label
		if _, _, err := p.ident(); err != nil {
			return nil, err
		}
	}
	return b, nil
}

func (p *parser) caseStmt() (Stmt, error) {
	pos := p.advance().pos
	if err := p.expectOp("("); err != nil {
		return nil, err
	}
	e, err := p.expr()
	if err != nil {
		return nil, err
	}
	if err := p.expectOp(")"); err != nil {
		return nil, err
	}
	c := &Case{P: pos, Kind: "case", Expr: e}
	ndef := 0
	for !p.isKw("endcase") {
		if p.peek().kind == tEOF {
			return nil, p.errf("syntax", "missing 'endcase' for 'case' at %s", pos)
		}
		var it CaseItem
		if p.acceptKw("default") {
			p.acceptOp(":")
			ndef++
			if ndef > 1 {
				return nil, p.errf("syntax", "more than one default in case")
			}
		} else {
			for {
				l, err := p.expr()
				if err != nil {
					return nil, err
				}
				it.Labels = append(it.Labels, l)
				if p.acceptOp(",") {
					continue
				}
				break
			}
			if err := p.expectOp(":"); err != nil {
				return nil, err
			}
		}
		it.Body, err = p.stmt()
		if err != nil {
			return nil, err
		}
		c.Items = append(c.Items, it)
	}
	p.advance()
	return c, nil
}

// ------------------------------------------------------------------ module items

func (p *parser) rangeOpt() (*RangeSpec, error) {
	if !p.isOp("[") {
		return nil, nil
	}
	p.advance()
	a, err := p.expr()
	if err != nil {
		return nil, err
	}
	if err := p.expectOp(":"); err != nil {
		return nil, err
	}
	b, err := p.expr()
	if err != nil {
		return nil, err
	}
	if err := p.expectOp("]"); err != nil {
		return nil, err
	}
	return &RangeSpec{a, b}, nil
}

// declHead parses  [input|output|inout] [wire|reg|integer] [signed] [range]
func (p *parser) declHead() (*Decl, bool, error) {
	d := &Decl{P: p.peek().pos, Dir: "none", Kind: "none"}
	any := false
	switch {
	case p.acceptKw("input"):
		d.Dir, any = "input", true
	case p.acceptKw("output"):
		d.Dir, any = "output", true
	case p.acceptKw("inout"):
		return nil, false, p.errf("unsupported", "inout port")
	}
	switch {
	case p.acceptKw("wire"):
		d.Kind, any = "wire", true
	case p.acceptKw("reg"):
		d.Kind, any = "reg", true
	case p.acceptKw("integer"):
		d.Kind, any = "integer", true
	case p.isKw("tri") || p.isKw("wand") || p.isKw("wor") || p.isKw("supply0") || p.isKw("supply1") || p.isKw("real") || p.isKw("time"):
		return nil, false, p.errf("unsupported", "net/variable type '%s'", p.peek().text)
	}
	if !any {
		return d, false, nil
	}
	if p.acceptKw("signed") {
		return nil, false, p.errf("unsupported", "signed declaration (all arithmetic is unsigned)")
	}
	r, err := p.rangeOpt()
	if err != nil {
		return nil, false, err
	}
	d.Range = r
	if d.Kind == "integer" && r != nil {
		return nil, false, p.errf("syntax", "integer with a range")
	}
	return d, true, nil
}

func (p *parser) declNames(d *Decl) error {
	for {
		name, _, err := p.ident()
		if err != nil {
			return err
		}
		dn := DeclName{Name: name}
		if p.isOp("[") {
			r, err := p.rangeOpt()
			if err != nil {
				return err
			}
			dn.Mem = r
			if p.isOp("[") {
				return p.errf("unsupported", "multi-dimensional array")
			}
		}
		if p.acceptOp("=") {
			e, err := p.expr()
			if err != nil {
				return err
			}
			dn.Init = e
		}
		d.Names = append(d.Names, dn)
		if !p.acceptOp(",") {
			return nil
		}
	}
}

// declItem parses one declaration statement terminated by ';'
func (p *parser) declItem(_ string) ([]*Decl, error) {
	d, ok, err := p.declHead()
	if err != nil {
		return nil, err
	}
	if !ok {
		return nil, p.errf("syntax", "expected a declaration")
	}
	if err := p.declNames(d); err != nil {
		return nil, err
	}
	if err := p.expectOp(";"); err != nil {
		return nil, err
	}
	return []*Decl{d}, nil
}

func (p *parser) paramDecl(local bool, inHeader bool) ([]Item, error) {
	// after the keyword: [signed] [range] | integer   name = expr {, name = expr}
	if p.acceptKw("integer") {
		// plain integer parameter
	} else if p.isKw("signed") || p.isKw("real") {
		return nil, p.errf("unsupported", "parameter type '%s'", p.peek().text)
	}
	r, err := p.rangeOpt()
	if err != nil {
		return nil, err
	}
	var out []Item
	for {
		pos := p.peek().pos
		name, _, err := p.ident()
		if err != nil {
			return nil, err
		}
		if err := p.expectOp("="); err != nil {
			return nil, err
		}
		v, err := p.expr()
		if err != nil {
			return nil, err
		}
		out = append(out, &Param{pos, local, r, name, v})
		if inHeader {
			// in a #( … ) header a comma may be followed by the `parameter` keyword again
			if p.isOp(",") && p.peekN(1).kind == tIdent && p.peekN(1).text == "parameter" {
				return out, nil
			}
		}
		if !p.acceptOp(",") {
			return out, nil
		}
	}
}

func (p *parser) always() (Item, error) {
	pos := p.advance().pos
	a := &Always{P: pos}
	if !p.acceptOp("@") {
		return nil, p.errf("unsupported", "always without event control")
	}
	if p.acceptOp("*") {
		a.Star = true
	} else {
		if err := p.expectOp("("); err != nil {
			return nil, err
		}
		if p.acceptOp("*") {
			a.Star = true
		} else {
			for {
				ev := Event{Edge: "lvl"}
				if p.acceptKw("posedge") {
					ev.Edge = "pos"
				} else if p.acceptKw("negedge") {
					ev.Edge = "neg"
				}
				x, err := p.expr()
				if err != nil {
					return nil, err
				}
				ev.X = x
				a.Evs = append(a.Evs, ev)
				if p.acceptKw("or") || p.acceptOp(",") {
					continue
				}
				break
			}
		}
		if err := p.expectOp(")"); err != nil {
			return nil, err
		}
	}
	body, err := p.stmt()
	if err != nil {
		return nil, err
	}
	a.Body = body
	return a, nil
}

func (p *parser) connList() (named bool, conns []Conn, err error) {
	// after '(' ; consumes ')'
	if p.acceptOp(")") {
		return false, nil, nil
	}
	if p.isOp(".") {
		named = true
	}
	for {
		var c Conn
		if named {
			if err = p.expectOp("."); err != nil {
				return
			}
			c.Port, _, err = p.ident()
			if err != nil {
				return
			}
			if err = p.expectOp("("); err != nil {
				return
			}
			if !p.isOp(")") {
				c.X, err = p.expr()
				if err != nil {
					return
				}
			}
			if err = p.expectOp(")"); err != nil {
				return
			}
		} else {
			if p.isOp(".") {
				err = p.errf("syntax", "mixed positional and named connections")
				return
			}
			if !(p.isOp(",") || p.isOp(")")) {
				c.X, err = p.expr()
				if err != nil {
					return
				}
			}
		}
		conns = append(conns, c)
		if p.acceptOp(",") {
			continue
		}
		err = p.expectOp(")")
		return
	}
}

func (p *parser) instance() ([]Item, error) {
	pos := p.peek().pos
	modName, _, err := p.ident()
	if err != nil {
		return nil, err
	}
	var pn bool
	var params []Conn
	if p.acceptOp("#") {
		if err := p.expectOp("("); err != nil {
			return nil, err
		}
		pn, params, err = p.connList()
		if err != nil {
			return nil, err
		}
	}
	var out []Item
	for {
		instName, _, err := p.ident()
		if err != nil {
			return nil, err
		}
		if p.isOp("[") {
			return nil, p.errf("unsupported", "instance array")
		}
		if err := p.expectOp("("); err != nil {
			return nil, err
		}
		named, conns, err := p.connList()
		if err != nil {
			return nil, err
		}
		out = append(out, &Instance{pos, modName, instName, pn, params, named, conns})
		if p.acceptOp(",") {
			continue
		}
		break
	}
	return out, p.expectOp(";")
}

func (p *parser) moduleItem() ([]Item, error) {
	t := p.peek()
	if t.kind != tIdent {
		return nil, p.errf("syntax", "unexpected %s in module body", t)
	}
	switch t.text {
	case "input", "output", "inout", "wire", "reg", "integer", "tri", "wand", "wor", "supply0", "supply1", "real", "time":
		ds, err := p.declItem("none")
		if err != nil {
			return nil, err
		}
		var out []Item
		for _, d := range ds {
			out = append(out, d)
		}
		return out, nil
	case "parameter", "localparam":
		p.advance()
		items, err := p.paramDecl(t.text == "localparam", false)
		if err != nil {
			return nil, err
		}
		return items, p.expectOp(";")
	case "assign":
		p.advance()
		if p.isOp("#") || p.isOp("(") {
			return nil, p.errf("unsupported", "delay / drive strength on continuous assignment")
		}
		var out []Item
		for {
			pos := p.peek().pos
			lhs, err := p.lvalue()
			if err != nil {
				return nil, err
			}
			if err := p.expectOp("="); err != nil {
				return nil, err
			}
			rhs, err := p.expr()
			if err != nil {
				return nil, err
			}
			out = append(out, &ContAssign{pos, lhs, rhs})
			if !p.acceptOp(",") {
				break
			}
		}
		return out, p.expectOp(";")
	case "always":
		a, err := p.always()
		if err != nil {
			return nil, err
		}
		return []Item{a}, nil
	case "initial":
		p.advance()
		b, err := p.stmt()
		if err != nil {
			return nil, err
		}
		return []Item{&Initial{t.pos, b}}, nil
	case "function", "task", "generate", "genvar", "defparam", "specify", "event":
		return nil, p.errf("unsupported", "module item '%s'", t.text)
	}
	if keywords[t.text] {
		return nil, p.errf("syntax", "unexpected keyword '%s' in module body", t.text)
	}
	return p.instance()
}

func (p *parser) module() (*Module, error) {
	pos := p.peek().pos
	if err := p.expectKw("module"); err != nil {
		return nil, err
	}
	name, _, err := p.ident()
	if err != nil {
		return nil, err
	}
	m := &Module{P: pos, Name: name}
	if p.acceptOp("#") {
		if err := p.expectOp("("); err != nil {
			return nil, err
		}
		for {
			if err := p.expectKw("parameter"); err != nil {
				return nil, err
			}
			items, err := p.paramDecl(false, true)
			if err != nil {
				return nil, err
			}
			m.Items = append(m.Items, items...)
			if p.acceptOp(",") {
				continue
			}
			break
		}
		if err := p.expectOp(")"); err != nil {
			return nil, err
		}
	}
	if p.acceptOp("(") {
		if !p.acceptOp(")") {
			var cur *Decl // ANSI: the last declaration head, inherited by following bare names
			for {
				d, ok, err := p.declHead()
				if err != nil {
					return nil, err
				}
				pname, ppos, err := p.ident()
				if err != nil {
					return nil, err
				}
				if ok {
					if d.Dir == "none" {
						return nil, &Error{ppos, "syntax", "port declaration without direction"}
					}
					cur = d
					m.Items = append(m.Items, d)
				}
				if cur != nil {
					dn := DeclName{Name: pname}
					if p.acceptOp("=") {
						dn.Init, err = p.expr()
						if err != nil {
							return nil, err
						}
					}
					cur.Names = append(cur.Names, dn)
				}
				m.Ports = append(m.Ports, pname)
				if p.acceptOp(",") {
					continue
				}
				break
			}
			if err := p.expectOp(")"); err != nil {
				return nil, err
			}
		}
	}
	if err := p.expectOp(";"); err != nil {
		return nil, err
	}
	for !p.isKw("endmodule") {
		if p.peek().kind == tEOF {
			return nil, p.errf("syntax", "missing 'endmodule' for module %s", name)
		}
		items, err := p.moduleItem()
		if err != nil {
			return nil, err
		}
		m.Items = append(m.Items, items...)
	}
	p.advance()
	return m, nil
}

// ParseFile parses one source text (any number of modules).
func ParseFile(file string, src string) ([]*Module, error) {
	toks, err := tokenize(file, src)
	if err != nil {
		return nil, err
	}
	p := &parser{toks: toks}
	var out []*Module
	for p.peek().kind != tEOF {
		m, err := p.module()
		if err != nil {
			return nil, err
		}
		out = append(out, m)
	}
	return out, nil
}

// ParseFiles parses a file set given as name → text; files are taken in name order so the
// result does not depend on map iteration.  A module defined twice is an error.
func ParseFiles(files map[string]string) (*Design, error) {
	names := make([]string, 0, len(files))
	for n := range files {
		names = append(names, n)
	}
	sort.Strings(names)
	d := &Design{}
	seen := map[string]Pos{}
	for _, n := range names {
		ms, err := ParseFile(n, files[n])
		if err != nil {
			return nil, err
		}
		for _, m := range ms {
			if q, dup := seen[m.Name]; dup {
				return nil, &Error{m.P, "syntax", "module " + m.Name + " already defined at " + q.String()}
			}
			seen[m.Name] = m.P
			d.Modules = append(d.Modules, m)
		}
	}
	return d, nil
}
