// Package vlog: reader for the Verilog subset of DESIGN.md 5.3 (see /verif/docs/Vlog.md).
//
// Hand-written tokenizer + recursive-descent parser producing an AST and a one-line
// S-expression that lean/BMV/Vlog/Sexp.lean reads.  Anything outside the subset is an error
// with a position — nothing is skipped silently except comments, attributes `(* … *)`, the
// `timescale / `default_nettype directives and the arguments of the display-like system tasks.
package vlog

import (
	"fmt"
	"math/big"
	"strings"
)

type Pos struct {
	File string
	Line int
	Col  int
}

func (p Pos) String() string { return fmt.Sprintf("%s:%d:%d", p.File, p.Line, p.Col) }

// Error is a reader error with position; Class is "lex" or "syntax" or "unsupported".
type Error struct {
	Pos   Pos
	Class string
	Msg   string
}

func (e *Error) Error() string { return fmt.Sprintf("%s: %s: %s", e.Pos, e.Class, e.Msg) }

type tokKind int

const (
	tEOF tokKind = iota
	tIdent
	tSys // $name
	tNum
	tStr
	tOp
)

type token struct {
	kind tokKind
	text string // identifier / operator / string contents
	pos  Pos
	// numbers
	width  int // -1 = unsized
	val    *big.Int
	signed bool
}

func (t token) String() string {
	switch t.kind {
	case tEOF:
		return "end of file"
	case tNum:
		return "number " + t.val.String()
	case tStr:
		return "string"
	}
	return "'" + t.text + "'"
}

type lexer struct {
	file string
	src  []byte
	i    int
	line int
	col  int
	// afterHash: the previous token was '#': in `#1 'b0` the 1 is the delay, not a literal size
	afterHash bool
}

func (l *lexer) pos() Pos { return Pos{l.file, l.line, l.col} }

func (l *lexer) peekc(k int) byte {
	if l.i+k < len(l.src) {
		return l.src[l.i+k]
	}
	return 0
}

func (l *lexer) adv() {
	if l.i < len(l.src) {
		if l.src[l.i] == '\n' {
			l.line++
			l.col = 1
		} else {
			l.col++
		}
		l.i++
	}
}

func isIdStart(c byte) bool { return c == '_' || (c >= 'a' && c <= 'z') || (c >= 'A' && c <= 'Z') }
func isDigit(c byte) bool   { return c >= '0' && c <= '9' }
func isIdChar(c byte) bool  { return isIdStart(c) || isDigit(c) || c == '$' }
func isSpace(c byte) bool   { return c == ' ' || c == '\t' || c == '\n' || c == '\r' || c == '\f' }

var ops3 = []string{"<<<", ">>>", "===", "!=="}
var ops2 = []string{"<<", ">>", "<=", ">=", "==", "!=", "&&", "||", "~&", "~|", "~^", "^~", "**", "+:", "-:"}

const ops1 = "()[]{}:;,.=+-*/%&|^~!<>?@#"

// skipBlank skips white space, comments, attributes and the harmless directives.
func (l *lexer) skipBlank() error {
	for l.i < len(l.src) {
		c := l.src[l.i]
		switch {
		case isSpace(c):
			l.adv()
		case c == '/' && l.peekc(1) == '/':
			for l.i < len(l.src) && l.src[l.i] != '\n' {
				l.adv()
			}
		case c == '/' && l.peekc(1) == '*':
			p := l.pos()
			l.adv()
			l.adv()
			for {
				if l.i >= len(l.src) {
					return &Error{p, "lex", "unterminated block comment"}
				}
				if l.src[l.i] == '*' && l.peekc(1) == '/' {
					l.adv()
					l.adv()
					break
				}
				l.adv()
			}
		case c == '(' && l.peekc(1) == '*':
			// attribute instance (* … *)  — but "(*)" / "( * )" is the sensitivity list @(*)
			j := l.i + 2
			for j < len(l.src) && isSpace(l.src[j]) {
				j++
			}
			if j < len(l.src) && l.src[j] == ')' {
				return nil
			}
			p := l.pos()
			l.adv()
			l.adv()
			for {
				if l.i >= len(l.src) {
					return &Error{p, "lex", "unterminated attribute (* … *)"}
				}
				if l.src[l.i] == '*' && l.peekc(1) == ')' {
					l.adv()
					l.adv()
					break
				}
				l.adv()
			}
		case c == '`':
			p := l.pos()
			j := l.i + 1
			for j < len(l.src) && isIdChar(l.src[j]) {
				j++
			}
			name := string(l.src[l.i+1 : j])
			switch name {
			case "timescale", "default_nettype", "resetall", "celldefine", "endcelldefine":
				for l.i < len(l.src) && l.src[l.i] != '\n' {
					l.adv()
				}
			default:
				return &Error{p, "unsupported", "compiler directive `" + name}
			}
		default:
			return nil
		}
	}
	return nil
}

func digitVal(c byte) int {
	switch {
	case c >= '0' && c <= '9':
		return int(c - '0')
	case c >= 'a' && c <= 'f':
		return int(c-'a') + 10
	case c >= 'A' && c <= 'F':
		return int(c-'A') + 10
	}
	return 99
}

// lexBased reads  '[s]<base> <digits>  (the apostrophe is at l.i).
func (l *lexer) lexBased(start Pos, width int) (token, error) {
	l.adv() // '
	signed := false
	if c := l.peekc(0); c == 's' || c == 'S' {
		signed = true
		l.adv()
	}
	var base int
	switch l.peekc(0) {
	case 'b', 'B':
		base = 2
	case 'o', 'O':
		base = 8
	case 'd', 'D':
		base = 10
	case 'h', 'H':
		base = 16
	default:
		return token{}, &Error{start, "lex", "bad base in number literal"}
	}
	l.adv()
	for isSpace(l.peekc(0)) {
		l.adv()
	}
	v := new(big.Int)
	n := 0
	for l.i < len(l.src) {
		c := l.src[l.i]
		if c == '_' {
			l.adv()
			continue
		}
		if c == 'x' || c == 'X' || c == 'z' || c == 'Z' || c == '?' {
			return token{}, &Error{l.pos(), "unsupported", "x/z digit in literal (two-state semantics)"}
		}
		d := digitVal(c)
		if d >= base {
			if isIdChar(c) {
				return token{}, &Error{l.pos(), "lex", "bad digit in number literal"}
			}
			break
		}
		v.Mul(v, big.NewInt(int64(base)))
		v.Add(v, big.NewInt(int64(d)))
		n++
		l.adv()
	}
	if n == 0 {
		return token{}, &Error{start, "lex", "number literal without digits"}
	}
	if width == 0 {
		return token{}, &Error{start, "lex", "zero-width literal"}
	}
	return token{kind: tNum, pos: start, width: width, val: v, signed: signed}, nil
}

func (l *lexer) next() (token, error) {
	t, err := l.next1()
	l.afterHash = err == nil && t.kind == tOp && t.text == "#"
	return t, err
}

func (l *lexer) next1() (token, error) {
	if err := l.skipBlank(); err != nil {
		return token{}, err
	}
	p := l.pos()
	if l.i >= len(l.src) {
		return token{kind: tEOF, pos: p}, nil
	}
	c := l.src[l.i]
	switch {
	case isIdStart(c):
		j := l.i
		for l.i < len(l.src) && isIdChar(l.src[l.i]) {
			l.adv()
		}
		return token{kind: tIdent, text: string(l.src[j:l.i]), pos: p}, nil
	case c == '\\':
		return token{}, &Error{p, "unsupported", "escaped identifier"}
	case c == '$':
		j := l.i
		l.adv()
		for l.i < len(l.src) && isIdChar(l.src[l.i]) {
			l.adv()
		}
		return token{kind: tSys, text: string(l.src[j:l.i]), pos: p}, nil
	case c == '"':
		l.adv()
		var sb strings.Builder
		for {
			if l.i >= len(l.src) || l.src[l.i] == '\n' {
				return token{}, &Error{p, "lex", "unterminated string"}
			}
			if l.src[l.i] == '\\' {
				l.adv()
				sb.WriteByte(l.peekc(0))
				l.adv()
				continue
			}
			if l.src[l.i] == '"' {
				l.adv()
				break
			}
			sb.WriteByte(l.src[l.i])
			l.adv()
		}
		return token{kind: tStr, text: sb.String(), pos: p}, nil
	case isDigit(c):
		v := new(big.Int)
		for l.i < len(l.src) && (isDigit(l.src[l.i]) || l.src[l.i] == '_') {
			if l.src[l.i] != '_' {
				v.Mul(v, big.NewInt(10))
				v.Add(v, big.NewInt(int64(l.src[l.i]-'0')))
			}
			l.adv()
		}
		if c := l.peekc(0); c == '.' && isDigit(l.peekc(1)) {
			return token{}, &Error{p, "unsupported", "real literal"}
		}
		// a size may be followed by blanks and a based literal
		save := *l
		for isSpace(l.peekc(0)) {
			l.adv()
		}
		if l.peekc(0) == '\'' && !(l.afterHash && save.i != l.i) {
			if !v.IsInt64() || v.Int64() > 1<<20 {
				return token{}, &Error{p, "lex", "literal size too large"}
			}
			return l.lexBased(p, int(v.Int64()))
		}
		*l = save
		if isIdStart(l.peekc(0)) {
			return token{}, &Error{p, "lex", "identifier characters after number"}
		}
		return token{kind: tNum, pos: p, width: -1, val: v, signed: true}, nil
	case c == '\'':
		return l.lexBased(p, -1)
	}
	for _, o := range ops3 {
		if strings.HasPrefix(string(l.src[l.i:min(l.i+3, len(l.src))]), o) {
			l.adv()
			l.adv()
			l.adv()
			return token{kind: tOp, text: o, pos: p}, nil
		}
	}
	for _, o := range ops2 {
		if strings.HasPrefix(string(l.src[l.i:min(l.i+2, len(l.src))]), o) {
			l.adv()
			l.adv()
			return token{kind: tOp, text: o, pos: p}, nil
		}
	}
	if strings.IndexByte(ops1, c) >= 0 {
		l.adv()
		return token{kind: tOp, text: string(c), pos: p}, nil
	}
	return token{}, &Error{p, "lex", fmt.Sprintf("unexpected character %q", c)}
}

func tokenize(file string, src string) ([]token, error) {
	l := &lexer{file: file, src: []byte(src), line: 1, col: 1}
	var out []token
	for {
		t, err := l.next()
		if err != nil {
			return nil, err
		}
		out = append(out, t)
		if t.kind == tEOF {
			return out, nil
		}
	}
}
