// 4-bit counter with synchronous reset and enable; wraps 15 -> 0; tc = terminal count
module counter(input clk, input reset, input en, output reg [3:0] q, output tc);
    assign tc = (q == 4'd15) ? 1'b1 : 1'b0;
    always @(posedge clk) begin
        if (reset)
            q <= 4'd0;
        else if (en)
            q <= q + 1;
    end
endmodule
