// textbook synchronous FIFO, depth 4, width 8, pointers with an extra wrap bit
module fifo #(parameter W = 8, parameter AW = 2) (
    input clk, input reset,
    input wr_en, input [W-1:0] din,
    input rd_en, output reg [W-1:0] dout,
    output empty, output full);
    reg [W-1:0] mem [0:(1<<AW)-1];
    reg [AW:0] wptr, rptr;
    integer k;
    assign empty = (wptr == rptr);
    assign full = (wptr[AW-1:0] == rptr[AW-1:0]) && (wptr[AW] != rptr[AW]);
    initial begin
        for (k = 0; k < (1<<AW); k = k + 1) mem[k] = 0;
    end
    always @(posedge clk) begin
        if (reset) begin
            wptr <= 0;
            rptr <= 0;
            dout <= 0;
        end else begin
            if (wr_en && !full) begin
                mem[wptr[AW-1:0]] <= din;
                wptr <= wptr + 1;
            end
            if (rd_en && !empty) begin
                dout <= mem[rptr[AW-1:0]];
                rptr <= rptr + 1;
            end
        end
    end
endmodule
