(design (module "err_nomodule" (ports "x" "y") (items (decl input none nil (v "x" nil nil)) (decl output none nil (v "y" nil nil)) (inst "ghost" "u" (pos) (named ("a" (id "x")) ("b" (id "y")))))))
