module err_loop(input a, output y);
    wire w;
    assign w = ~w | a;
    assign y = w;
endmodule
