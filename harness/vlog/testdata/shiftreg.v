// 8-bit shift register, serial in, parallel out; non-ANSI ports, asynchronous-style reset list
module shiftreg(clk, rst, din, q, msb);
    input clk, rst, din;
    output [7:0] q;
    output msb;
    reg [7:0] q;
    assign msb = q[7];
    always @(posedge clk or posedge rst) begin
        if (rst) q <= 8'h00;
        else q <= {q[6:0], din};
    end
endmodule
