module err_memvec(input clk, output reg [3:0] q);
    reg [3:0] m [0:1];
    always @(posedge clk) q <= m;
endmodule
