module err_undeclared(input clk, output reg q);
    always @(posedge clk) q <= nosuch;
endmodule
