module err_nomodule(input x, output y);
    ghost u (.a(x), .b(y));
endmodule
