module leaf(input a, output b);
    assign b = a;
endmodule
module err_ports(input x, output y);
    leaf u (x, y, x);
endmodule
