// procedural semantics: non-blocking swap, blocking chain, last write wins, part-select writes,
// two processes, a memory written through a loop variable, initial values
module procs(input clk, input c, output reg [3:0] p, output reg [3:0] q,
             output reg [3:0] u, output reg [3:0] v, output reg [7:0] w, output reg [3:0] cnt);
    reg [3:0] t;
    reg [3:0] m [0:3];
    integer j;
    initial begin
        p = 4'd1; q = 4'd2; u = 4'd3; v = 4'd4; w = 8'h00; cnt = 0;
        for (j = 0; j < 4; j = j + 1) m[j] = j;
    end
    always @(posedge clk) begin
        p <= q;          // swap: both right-hand sides read pre-edge values
        q <= p;
    end
    always @(posedge clk) begin
        t = u;           // blocking: visible to the following statements of this block
        u = v;
        v = t;
        w <= 8'hff;
        if (c) w <= 8'h0f;      // last write wins
        w[7:6] <= 2'b10;        // part-select write on top of it
        cnt <= cnt + m[cnt[1:0]] + 1;
    end
endmodule
