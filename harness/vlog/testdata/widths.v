// width rules of IEEE 1364 section 5: context-determined vs self-determined operands
module widths(input [3:0] a, input [3:0] b,
              output [4:0] sum5, output [3:0] avg_lost, output [3:0] avg_kept,
              output [7:0] inv8, output lt_wrap, output [3:0] cat_self,
              output [7:0] rep, output red_and, output red_xor, output [3:0] shl, output [7:0] mix,
              output [3:0] neg, output [5:0] tern);
    assign sum5 = a + b;                 // carry kept: evaluated at 5 bits
    assign avg_lost = (a + b) >> 1;      // 4-bit context: carry lost before the shift
    assign avg_kept = (a + b + 0) >> 1;  // unsized 0 forces 32 bits: carry kept
    assign inv8 = ~a;                    // a zero-extended to 8 bits, then inverted
    assign lt_wrap = (a - 1) < b;        // 32-bit: 0-1 wraps to 4294967295
    assign cat_self = {a + b} >> 1;      // concatenation operand is self-determined (4 bits)
    assign rep = {2{a[1:0], b[3:2]}};
    assign red_and = &a;
    assign red_xor = ^b;
    assign shl = a << 2;
    assign mix = {a, b} ^ 8'h0f;
    assign neg = -a;
    assign tern = (a > b) ? a : 6'd33;
endmodule
