module err_range(input clk, input [2:0] i, output reg q);
    reg [3:0] r;
    always @(posedge clk) q <= r[i];
endmodule
