// hierarchy: positional and named connections, parameter override, instance output into a part-select
module addk #(parameter K = 1) (input [3:0] x, output [3:0] y);
    assign y = x + K;
endmodule
module dff(clk, d, q);
    input clk;
    input [3:0] d;
    output [3:0] q;
    reg [3:0] q;
    always @(posedge clk) q <= d;
endmodule
module hier(input clk, input [3:0] in, output [7:0] out);
    wire [3:0] a1;
    wire [3:0] a3;
    addk u1 (in, a1);
    addk #(.K(3)) u3 (.x(a1), .y(a3));
    dff r1 (.clk(clk), .d(a1), .q(out[3:0]));
    dff r3 (clk, a3, out[7:4]);
endmodule
