// every lint class of Design.lint: reg assigned continuously, net assigned procedurally,
// two always blocks driving one reg (the shape of the barrier shared object), two drivers of a net
module lint_bad(input clk, input a, output reg done, output y, output z);
    reg r;
    wire w;
    assign r = a;
    assign z = a;
    assign z = ~a;
    always @(posedge clk) begin
        w <= a;
        done <= 1'b0;
    end
    always @(posedge clk) begin
        if (a) done <= 1'b1;
    end
    assign y = w;
endmodule
