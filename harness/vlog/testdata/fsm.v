// Mealy detector of the bit sequence 1 0 1 (overlapping): state register + combinational next-state
module fsm(input clk, input reset, input x, output reg hit);
    localparam S0 = 2'd0, S1 = 2'd1, S10 = 2'd2;
    reg [1:0] state;
    reg [1:0] nstate;
    always @(*) begin
        nstate = S0;
        hit = 1'b0;
        case (state)
            S0: if (x) nstate = S1; else nstate = S0;
            S1: if (x) nstate = S1; else nstate = S10;
            S10: begin
                if (x) begin nstate = S1; hit = 1'b1; end
                else nstate = S0;
            end
            default: nstate = S0;
        endcase
    end
    always @(posedge clk) begin
        if (reset) state <= S0;
        else state <= nstate;
    end
endmodule
