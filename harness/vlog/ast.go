package vlog

import "math/big"

// ---------------------------------------------------------------- expressions

type Expr interface{ exprPos() Pos }

type Num struct {
	P      Pos
	Width  int // -1: unsized (32 bits)
	Val    *big.Int
	Signed bool
}
type Ident struct {
	P    Pos
	Name string
}

// Index is a bit-select of a vector or a word-select of a memory: Base[Idx]
type Index struct {
	P    Pos
	Base Expr
	Idx  Expr
}

// Range is a constant part-select Base[Msb:Lsb]
type Range struct {
	P        Pos
	Base     Expr
	Msb, Lsb Expr
}

// IdxRange is an indexed part-select Base[Start +: Width] (Up) or Base[Start -: Width]
type IdxRange struct {
	P     Pos
	Base  Expr
	Start Expr
	Width Expr
	Up    bool
}
type Concat struct {
	P     Pos
	Parts []Expr
}
type Repl struct {
	P     Pos
	Count Expr
	Parts []Expr
}
type Unary struct {
	P  Pos
	Op string // ! ~ - + & | ^ ~& ~| ~^
	X  Expr
}
type Binary struct {
	P    Pos
	Op   string
	A, B Expr
}
type Cond struct {
	P       Pos
	C, A, B Expr
}

func (e *Num) exprPos() Pos      { return e.P }
func (e *Ident) exprPos() Pos    { return e.P }
func (e *Index) exprPos() Pos    { return e.P }
func (e *Range) exprPos() Pos    { return e.P }
func (e *IdxRange) exprPos() Pos { return e.P }
func (e *Concat) exprPos() Pos   { return e.P }
func (e *Repl) exprPos() Pos     { return e.P }
func (e *Unary) exprPos() Pos    { return e.P }
func (e *Binary) exprPos() Pos   { return e.P }
func (e *Cond) exprPos() Pos     { return e.P }

// ---------------------------------------------------------------- statements

type Stmt interface{ stmtPos() Pos }

type Block struct {
	P      Pos
	Label  string
	Locals []*Decl
	Stmts  []Stmt
}
type If struct {
	P    Pos
	Cond Expr
	Then Stmt
	Else Stmt // may be nil
}
type CaseItem struct {
	Labels []Expr // nil: default
	Body   Stmt
}
type Case struct {
	P     Pos
	Kind  string // case (casez / casex are rejected)
	Expr  Expr
	Items []CaseItem
}
type For struct {
	P    Pos
	Init *Assign
	Cond Expr
	Step *Assign
	Body Stmt
}
type Assign struct {
	P        Pos
	LHS      Expr
	Blocking bool
	Delay    Expr // intra-assignment delay `#n`, may be nil; ignored by the semantics
	RHS      Expr
}
type Null struct{ P Pos }

// SysTask: a display-like system task; arguments are dropped
type SysTask struct {
	P    Pos
	Name string
}

// Delayed: `#n stmt` — the delay is ignored by the (zero-delay) semantics
type Delayed struct {
	P     Pos
	Delay Expr
	Body  Stmt
}

func (s *Block) stmtPos() Pos   { return s.P }
func (s *If) stmtPos() Pos      { return s.P }
func (s *Case) stmtPos() Pos    { return s.P }
func (s *For) stmtPos() Pos     { return s.P }
func (s *Assign) stmtPos() Pos  { return s.P }
func (s *Null) stmtPos() Pos    { return s.P }
func (s *SysTask) stmtPos() Pos { return s.P }
func (s *Delayed) stmtPos() Pos { return s.P }

// ---------------------------------------------------------------- module items

type Item interface{ itemPos() Pos }

type RangeSpec struct{ Msb, Lsb Expr }

type DeclName struct {
	Name string
	Mem  *RangeSpec // memory dimension, may be nil
	Init Expr       // `wire x = e` / `reg x = e`, may be nil
}

type Decl struct {
	P      Pos
	Dir    string // input output inout none
	Kind   string // wire reg integer none (none = implicit wire)
	Signed bool
	Range  *RangeSpec
	Names  []DeclName
}
type Param struct {
	P     Pos
	Local bool
	Range *RangeSpec
	Name  string
	Value Expr
}
type ContAssign struct {
	P   Pos
	LHS Expr
	RHS Expr
}
type Event struct {
	Edge string // pos neg lvl
	X    Expr
}
type Always struct {
	P    Pos
	Star bool
	Evs  []Event
	Body Stmt
}
type Initial struct {
	P    Pos
	Body Stmt
}
type Conn struct {
	Port string // "" for positional
	X    Expr   // nil: unconnected
}
type Instance struct {
	P       Pos
	Module  string
	Name    string
	ParamsN bool // named parameter overrides
	Params  []Conn
	Named   bool
	Conns   []Conn
}

func (d *Decl) itemPos() Pos       { return d.P }
func (d *Param) itemPos() Pos      { return d.P }
func (d *ContAssign) itemPos() Pos { return d.P }
func (d *Always) itemPos() Pos     { return d.P }
func (d *Initial) itemPos() Pos    { return d.P }
func (d *Instance) itemPos() Pos   { return d.P }

type Module struct {
	P     Pos
	Name  string
	Ports []string // in header order
	Items []Item   // ANSI port declarations and header parameters come first
}

// Design = a file set
type Design struct {
	Modules []*Module
}
