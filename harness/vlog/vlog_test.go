package vlog

import (
	"os"
	"path/filepath"
	"strings"
	"testing"
)

// the hand-written circuits parse to the committed S-expressions (lean/BMV/Vlog/SelfTest.lean includes them)
func TestGolden(t *testing.T) {
	files, _ := filepath.Glob("testdata/*.v")
	if len(files) == 0 {
		t.Fatal("no testdata")
	}
	for _, f := range files {
		b, _ := os.ReadFile(f)
		d, err := ParseFiles(map[string]string{filepath.Base(f): string(b)})
		if err != nil {
			t.Errorf("%s: %v", f, err)
			continue
		}
		want, _ := os.ReadFile(strings.TrimSuffix(f, ".v") + ".sexp")
		if strings.TrimSpace(string(want)) != ToSexp(d) {
			t.Errorf("%s: S-expression differs from golden file", f)
		}
	}
}

func TestRejects(t *testing.T) {
	for _, src := range []string{
		"module m(input a, output b); assign b = a ** 2; endmodule",
		"module m(inout a); endmodule",
		"module m(input a, output b); assign b = a.c; endmodule",
		"module m(input clk); always @(posedge clk) $readmemh(\"f\", m); endmodule",
		"module m(input a, output b); assign b = a; endmodule module m(input a); endmodule",
	} {
		if _, err := ParseFiles(map[string]string{"x.v": src}); err == nil {
			t.Errorf("accepted: %s", src)
		} else if e, ok := err.(*Error); !ok || e.Pos.Line < 1 {
			t.Errorf("error without position: %v", err)
		}
	}
}

func TestHashDelayLiteral(t *testing.T) {
	ms, err := ParseFile("x.v", "module m(input clk, output reg r); always @(posedge clk) r <= #1 'b0; endmodule")
	if err != nil {
		t.Fatal(err)
	}
	if s := ToSexp(&Design{Modules: ms}); !strings.Contains(s, "(nba (id \"r\") (num u 0) (num u 1))") {
		t.Errorf("unexpected: %s", s)
	}
}
