package vlog

import (
	"fmt"
	"strconv"
	"strings"
)

// ToSexp renders a parsed file set as ONE S-expression on ONE line (no newline inside; strings
// are double-quoted with \" and \\ escapes and contain only printable ASCII).  Grammar: see
// /verif/docs/Vlog.md.  The reader is lean/BMV/Vlog/Sexp.lean + Ast.lean (`Design.ofSexp`).
func ToSexp(d *Design) string {
	var sb strings.Builder
	sb.WriteString("(design")
	for _, m := range d.Modules {
		sb.WriteByte(' ')
		moduleSexp(&sb, m)
	}
	sb.WriteByte(')')
	return sb.String()
}

func q(s string) string {
	var sb strings.Builder
	sb.WriteByte('"')
	for i := 0; i < len(s); i++ {
		c := s[i]
		switch {
		case c == '"' || c == '\\':
			sb.WriteByte('\\')
			sb.WriteByte(c)
		case c < 32 || c > 126:
			sb.WriteString(fmt.Sprintf("\\x%02x", c))
		default:
			sb.WriteByte(c)
		}
	}
	sb.WriteByte('"')
	return sb.String()
}

func moduleSexp(sb *strings.Builder, m *Module) {
	sb.WriteString("(module " + q(m.Name) + " (ports")
	for _, p := range m.Ports {
		sb.WriteString(" " + q(p))
	}
	sb.WriteString(") (items")
	for _, it := range m.Items {
		sb.WriteByte(' ')
		itemSexp(sb, it)
	}
	sb.WriteString("))")
}

func rangeSexp(sb *strings.Builder, r *RangeSpec) {
	if r == nil {
		sb.WriteString("nil")
		return
	}
	sb.WriteString("(r ")
	exprSexp(sb, r.Msb)
	sb.WriteByte(' ')
	exprSexp(sb, r.Lsb)
	sb.WriteByte(')')
}

func optExpr(sb *strings.Builder, e Expr) {
	if e == nil {
		sb.WriteString("nil")
	} else {
		exprSexp(sb, e)
	}
}

func declSexp(sb *strings.Builder, d *Decl) {
	sb.WriteString("(decl " + d.Dir + " " + d.Kind + " ")
	rangeSexp(sb, d.Range)
	for _, n := range d.Names {
		sb.WriteString(" (v " + q(n.Name) + " ")
		rangeSexp(sb, n.Mem)
		sb.WriteByte(' ')
		optExpr(sb, n.Init)
		sb.WriteByte(')')
	}
	sb.WriteByte(')')
}

func connsSexp(sb *strings.Builder, named bool, cs []Conn) {
	if named {
		sb.WriteString("(named")
		for _, c := range cs {
			sb.WriteString(" (" + q(c.Port) + " ")
			optExpr(sb, c.X)
			sb.WriteByte(')')
		}
	} else {
		sb.WriteString("(pos")
		for _, c := range cs {
			sb.WriteByte(' ')
			optExpr(sb, c.X)
		}
	}
	sb.WriteByte(')')
}

func itemSexp(sb *strings.Builder, it Item) {
	switch x := it.(type) {
	case *Decl:
		declSexp(sb, x)
	case *Param:
		l := "0"
		if x.Local {
			l = "1"
		}
		sb.WriteString("(param " + l + " ")
		rangeSexp(sb, x.Range)
		sb.WriteString(" " + q(x.Name) + " ")
		exprSexp(sb, x.Value)
		sb.WriteByte(')')
	case *ContAssign:
		sb.WriteString("(assign ")
		exprSexp(sb, x.LHS)
		sb.WriteByte(' ')
		exprSexp(sb, x.RHS)
		sb.WriteByte(')')
	case *Always:
		sb.WriteString("(always ")
		if x.Star {
			sb.WriteString("star")
		} else {
			sb.WriteString("(ev")
			for _, e := range x.Evs {
				sb.WriteString(" (" + e.Edge + " ")
				exprSexp(sb, e.X)
				sb.WriteByte(')')
			}
			sb.WriteByte(')')
		}
		sb.WriteByte(' ')
		stmtSexp(sb, x.Body)
		sb.WriteByte(')')
	case *Initial:
		sb.WriteString("(initial ")
		stmtSexp(sb, x.Body)
		sb.WriteByte(')')
	case *Instance:
		sb.WriteString("(inst " + q(x.Module) + " " + q(x.Name) + " ")
		connsSexp(sb, x.ParamsN, x.Params)
		sb.WriteByte(' ')
		connsSexp(sb, x.Named, x.Conns)
		sb.WriteByte(')')
	default:
		panic("vlog: unknown item")
	}
}

func stmtSexp(sb *strings.Builder, s Stmt) {
	switch x := s.(type) {
	case *Block:
		sb.WriteString("(block ")
		if x.Label == "" {
			sb.WriteString("nil")
		} else {
			sb.WriteString(q(x.Label))
		}
		sb.WriteString(" (locals")
		for _, d := range x.Locals {
			sb.WriteByte(' ')
			declSexp(sb, d)
		}
		sb.WriteByte(')')
		for _, t := range x.Stmts {
			sb.WriteByte(' ')
			stmtSexp(sb, t)
		}
		sb.WriteByte(')')
	case *If:
		sb.WriteString("(if ")
		exprSexp(sb, x.Cond)
		sb.WriteByte(' ')
		stmtSexp(sb, x.Then)
		sb.WriteByte(' ')
		if x.Else == nil {
			sb.WriteString("nil")
		} else {
			stmtSexp(sb, x.Else)
		}
		sb.WriteByte(')')
	case *Case:
		sb.WriteString("(case ")
		exprSexp(sb, x.Expr)
		for _, it := range x.Items {
			if it.Labels == nil {
				sb.WriteString(" (default ")
			} else {
				sb.WriteString(" (item (")
				for i, l := range it.Labels {
					if i > 0 {
						sb.WriteByte(' ')
					}
					exprSexp(sb, l)
				}
				sb.WriteString(") ")
			}
			stmtSexp(sb, it.Body)
			sb.WriteByte(')')
		}
		sb.WriteByte(')')
	case *For:
		sb.WriteString("(for ")
		stmtSexp(sb, x.Init)
		sb.WriteByte(' ')
		exprSexp(sb, x.Cond)
		sb.WriteByte(' ')
		stmtSexp(sb, x.Step)
		sb.WriteByte(' ')
		stmtSexp(sb, x.Body)
		sb.WriteByte(')')
	case *Assign:
		if x.Blocking {
			sb.WriteString("(ba ")
		} else {
			sb.WriteString("(nba ")
		}
		exprSexp(sb, x.LHS)
		sb.WriteByte(' ')
		exprSexp(sb, x.RHS)
		sb.WriteByte(' ')
		optExpr(sb, x.Delay)
		sb.WriteByte(')')
	case *Null:
		sb.WriteString("(null)")
	case *SysTask:
		sb.WriteString("(sys " + q(x.Name) + ")")
	case *Delayed:
		sb.WriteString("(delay ")
		exprSexp(sb, x.Delay)
		sb.WriteByte(' ')
		stmtSexp(sb, x.Body)
		sb.WriteByte(')')
	default:
		panic("vlog: unknown statement")
	}
}

func exprSexp(sb *strings.Builder, e Expr) {
	switch x := e.(type) {
	case *Num:
		w := "u"
		if x.Width >= 0 {
			w = strconv.Itoa(x.Width)
		}
		sb.WriteString("(num " + w + " " + x.Val.String() + ")")
	case *Ident:
		sb.WriteString("(id " + q(x.Name) + ")")
	case *Index:
		sb.WriteString("(idx ")
		exprSexp(sb, x.Base)
		sb.WriteByte(' ')
		exprSexp(sb, x.Idx)
		sb.WriteByte(')')
	case *Range:
		sb.WriteString("(rng ")
		exprSexp(sb, x.Base)
		sb.WriteByte(' ')
		exprSexp(sb, x.Msb)
		sb.WriteByte(' ')
		exprSexp(sb, x.Lsb)
		sb.WriteByte(')')
	case *IdxRange:
		if x.Up {
			sb.WriteString("(ipu ")
		} else {
			sb.WriteString("(ipd ")
		}
		exprSexp(sb, x.Base)
		sb.WriteByte(' ')
		exprSexp(sb, x.Start)
		sb.WriteByte(' ')
		exprSexp(sb, x.Width)
		sb.WriteByte(')')
	case *Concat:
		sb.WriteString("(cat")
		for _, p := range x.Parts {
			sb.WriteByte(' ')
			exprSexp(sb, p)
		}
		sb.WriteByte(')')
	case *Repl:
		sb.WriteString("(rep ")
		exprSexp(sb, x.Count)
		for _, p := range x.Parts {
			sb.WriteByte(' ')
			exprSexp(sb, p)
		}
		sb.WriteByte(')')
	case *Unary:
		sb.WriteString("(un " + q(x.Op) + " ")
		exprSexp(sb, x.X)
		sb.WriteByte(')')
	case *Binary:
		sb.WriteString("(bin " + q(x.Op) + " ")
		exprSexp(sb, x.A)
		sb.WriteByte(' ')
		exprSexp(sb, x.B)
		sb.WriteByte(')')
	case *Cond:
		sb.WriteString("(cond ")
		exprSexp(sb, x.C)
		sb.WriteByte(' ')
		exprSexp(sb, x.A)
		sb.WriteByte(' ')
		exprSexp(sb, x.B)
		sb.WriteByte(')')
	default:
		panic("vlog: unknown expression")
	}
}
