#!/usr/bin/env python3
"""Runs the pinned test suite of /repo (the tests listed as stable_pass in /root/.vp/BASELINE.json) on the
current working tree, with and without the build tag `verif`, and reports every listed test that does
not pass.  Usage: python3 tools/baseline_check.py [repo]"""
import json
import os
import subprocess
import sys

repo = sys.argv[1] if len(sys.argv) > 1 else "/repo"
base = json.load(open("/root/.vp/BASELINE.json"))
want = set(base["stable_pass"])
env = dict(os.environ, GOFLAGS="-mod=mod", GOPROXY="off", GOSUMDB="off", GOTOOLCHAIN="local")
bad = False
for tags in ([], ["-tags", "verif"]):
    p = subprocess.run(["go", "test"] + tags + ["-json", "-vet=off", "-count=1", "-timeout", "25m", "./..."], cwd=repo, env=env,
                       stdout=subprocess.PIPE, stderr=subprocess.DEVNULL)
    passed = set()
    for l in p.stdout.decode("utf-8", "replace").splitlines():
        try:
            o = json.loads(l)
        except ValueError:
            continue
        if o.get("Action") == "pass" and o.get("Test"):
            passed.add("%s::%s" % (o["Package"], o["Test"]))
    missing = sorted(want - passed)
    print("tags=%s: %d of %d pinned tests pass" % (" ".join(tags) or "-", len(want & passed), len(want)))
    for m in missing:
        print("  NOT PASSING:", m)
    bad = bad or bool(missing)
sys.exit(1 if bad else 0)
