#!/usr/bin/env python3
"""Entry point of every registered check:  python3 tools/check.py Cxx --tier quick|thorough
[--replay file].  Exit 0 = property held on everything explored (KNOWN-FINDING lines allowed),
exit 1 = a `VIOLATION property=Cxx replay=<path>` line was printed."""
import argparse
import importlib
import os
import sys
import traceback

sys.path.insert(0, os.path.dirname(os.path.abspath(__file__)))
import vlib  # noqa: E402


def main():
    ap = argparse.ArgumentParser()
    ap.add_argument("prop")
    ap.add_argument("--tier", default=os.environ.get("VERIF_TIER", "quick"), choices=["quick", "thorough"])
    ap.add_argument("--replay", default=None)
    a = ap.parse_args()
    prop = a.prop.upper()
    seed = vlib.seed_from_env()
    mod = importlib.import_module("props." + prop.lower())
    rep = vlib.Report(prop, a.tier, seed, level=getattr(mod, "LEVEL", "proof"))
    try:
        if a.replay:
            mod.replay(rep, a.replay)
        else:
            mod.run(rep)
    except vlib.BuildError as e:
        # /repo (or the harness against it) no longer builds: nothing can be shown to hold
        rep.coverage.setdefault("explanation", "build failure")
        rep.violation({"property": prop, "kind": "build-failure", "detail": str(e)[-4000:],
                       "broken": "harness/CLI build against /repo"}, no_failing_input=True)
    except Exception:
        tb = traceback.format_exc()
        sys.stderr.write(tb)
        rep.violation({"property": prop, "kind": "driver-exception", "detail": tb[-4000:],
                       "broken": "driver"}, no_failing_input=True)
    # make sure the evidence validates even on early failure
    cov = rep.coverage
    if rep.level == "proof":
        cov.setdefault("obligations", 1)
        cov.setdefault("discharged", 0)
        cov.setdefault("checker_cmd", "lake build (did not complete)")
        cov.setdefault("trusted_base", vlib.TRUSTED_BASE_COMMON)
    rc = rep.finish()
    sys.exit(rc)


if __name__ == "__main__":
    main()
