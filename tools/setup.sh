#!/bin/bash
# Build the framework from files on disk only (offline): Lean library + oracles, Go harnesses.
set -e
cd "$(dirname "$0")/.."
export GOFLAGS=-mod=mod GOPROXY=off GOSUMDB=off GOTOOLCHAIN=local CGO_ENABLED=0
mkdir -p .build/bin evidence replays
targets="BMV.Audit"
for f in lean/BMV/Props/*.lean; do targets="$targets BMV.Props.$(basename "$f" .lean)"; done
for f in lean/Oracle/C*.lean; do n=$(basename "$f" .lean | tr 'A-Z' 'a-z'); targets="$targets oracle-$n"; done
(cd lean && flock /verif/.build/lake.lock lake build $targets 2>&1 | tail -5)
cp /repo/go.sum harness/go.sum
for d in harness/cmd/*/; do
  n=$(basename "$d")
  (cd harness && go build -tags verif -o ../.build/bin/h-$n ./cmd/$n) || echo "setup: harness $n failed to build"
done
echo setup done
