#!/bin/bash
# Build the framework from files on disk only (offline): Lean library + oracles, Go harnesses.
set -e
cd "$(dirname "$0")/.."
export GOFLAGS=-mod=mod GOPROXY=off GOSUMDB=off GOTOOLCHAIN=local CGO_ENABLED=0
mkdir -p .build/bin evidence replays
(cd lean && lake build 2>&1 | tail -5)
cp /repo/go.sum harness/go.sum
for d in harness/cmd/*/; do
  n=$(basename "$d")
  (cd harness && go build -tags verif -o ../.build/bin/h-$n ./cmd/$n) || echo "setup: harness $n failed to build"
done
echo setup done
