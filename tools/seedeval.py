#!/usr/bin/env python3
"""Evaluate a seeded change: python3 tools/seedeval.py <PROP> <seed-out-dir> <id> [--tier quick|thorough]

1. confirms the demonstration in a scratch worktree of /repo (fails with the patch, passes without);
2. runs the property's check against the patched worktree (VERIF_REPO) and reports whether it raised
   a VIOLATION (and whether with a concrete failing input);
3. runs the pinned tests of the touched packages with the patch;
4. stores everything under /verif/seeded/<id>/ (patch.diff, demonstration, meta.json).
"""
import glob
import hashlib
import json
import os
import re
import shutil
import subprocess
import sys

VERIF = os.path.dirname(os.path.dirname(os.path.abspath(__file__)))
WT = os.environ.get("SEEDEVAL_WT", "/tmp/wt-seedeval")
ENV = dict(os.environ, GOFLAGS="-mod=mod", GOPROXY="off", GOSUMDB="off", GOTOOLCHAIN="local")


def sh(cmd, cwd=None, env=None, timeout=3600):
    p = subprocess.run(cmd, shell=True, cwd=cwd, env=env or ENV, stdout=subprocess.PIPE, stderr=subprocess.STDOUT, timeout=timeout)
    return p.returncode, p.stdout.decode("utf-8", "replace")


def fresh_wt():
    sh("git -C /repo worktree remove --force %s" % WT)
    shutil.rmtree(WT, ignore_errors=True)
    rc, out = sh("git -C /repo worktree add --detach %s HEAD" % WT)
    assert rc == 0, out


def run_demo(outdir):
    """copy *_test.go demos into their package and run them; returns (ran, failed, log)"""
    tests = glob.glob(os.path.join(outdir, "*_test.go"))
    if not tests:
        return False, None, "no go test demonstration (see RUN/README in the seed directory)"
    log = ""
    failed = False
    copied = []
    pkgs = set()
    names = []
    for t in tests:
        src = open(t).read()
        m = re.search(r"^package (\w+)", src, re.M)
        pkg = m.group(1).replace("_test", "")
        cands = [d for d in glob.glob(os.path.join(WT, "pkg", "*")) + glob.glob(os.path.join(WT, "cmd", "*")) if os.path.basename(d) == pkg]
        if not cands:
            return False, None, "package %s not found" % pkg
        dst = os.path.join(cands[0], os.path.basename(t))
        shutil.copy(t, dst)
        copied.append(dst)
        pkgs.add("./" + os.path.relpath(cands[0], WT) + "/")
        names += re.findall(r"^func (Test\w+)", src, re.M)
    rc, out = sh("go test -vet=off -count=1 -run '^(%s)$' %s" % ("|".join(names), " ".join(sorted(pkgs))), cwd=WT)
    log += out[-3000:]
    failed = rc != 0
    for c in copied:
        os.remove(c)
    return True, failed, log


def main():
    prop, outdir, sid = sys.argv[1], sys.argv[2], sys.argv[3]
    tier = sys.argv[5] if len(sys.argv) > 5 and sys.argv[4] == "--tier" else "quick"
    patch = os.path.join(outdir, "patch.diff")
    meta_in = json.load(open(os.path.join(outdir, "meta.json"))) if os.path.exists(os.path.join(outdir, "meta.json")) else {}
    res = {"property": prop, "seed_id": sid, "summary": meta_in.get("summary"), "what_it_needs_to_manifest": meta_in.get("what_it_needs_to_manifest"),
           "how_demonstrated": meta_in.get("how_demonstrated")}
    fresh_wt()
    # demonstration on the clean tree
    ran, failed_clean, log_clean = run_demo(outdir)
    rc, out = sh("git apply %s" % patch, cwd=WT)
    if rc != 0:
        print("patch does not apply:", out)
        res["patch_applies"] = False
        json.dump(res, sys.stdout, indent=1)
        return
    touched = sorted(set("./" + os.path.dirname(l[6:]) + "/" for l in open(patch) if l.startswith("+++ b/") and l.strip().endswith(".go")))
    ran, failed_patched, log_patched = run_demo(outdir)
    res["demonstration"] = {"ran": ran, "fails_with_patch": failed_patched, "passes_on_clean_tree": (failed_clean is False) if ran else None}
    if not ran:
        # keep a demonstration that was confirmed by hand earlier (demos that are not plain go tests)
        try:
            old = json.load(open(os.path.join(VERIF, "seeded", sid, "meta.json")))["demonstration"]
            if old.get("ran") or old.get("note"):
                res["demonstration"] = old
        except Exception:
            pass
    rc, out = sh("go build %s && go test -vet=off -count=1 %s" % (" ".join(touched), " ".join(t for t in touched if t.startswith("./pkg"))), cwd=WT)
    res["existing_tests_with_patch"] = {"rc": rc, "tail": out[-600:]}
    # the check
    env = dict(os.environ, VERIF_REPO=WT)
    # the evidence file describes runs on /repo: keep it (the check rewrites it on every run)
    evf = os.path.join(VERIF, "evidence", prop + ".json")
    saved = open(evf, "rb").read() if os.path.exists(evf) else None
    rc, out = sh("python3 tools/check.py %s --tier %s" % (prop, tier), cwd=VERIF, env=env)
    if saved is not None:
        open(evf, "wb").write(saved)
    vio = [l for l in out.splitlines() if l.startswith("VIOLATION")]
    res["check"] = {"tier": tier, "rc": rc, "violation_lines": vio[:5],
                    "detected": rc == 1 and bool(vio),
                    "with_failing_input": any("no-failing-input-found" not in l for l in vio)}
    replays = [l.split("replay=")[1].split()[0] for l in vio if "replay=" in l]
    if replays and os.path.exists(replays[0]):
        try:
            res["check"]["replay_excerpt"] = json.dumps(json.load(open(replays[0])))[:1500]
        except Exception:
            pass
        for r in replays:
            if os.path.exists(r):
                os.remove(r)
    # store
    dst = os.path.join(VERIF, "seeded", sid)
    os.makedirs(dst, exist_ok=True)
    for f in os.listdir(outdir):
        if os.path.abspath(outdir) != os.path.abspath(dst) and f.endswith((".diff", ".go", ".txt", ".md", ".sh", ".json")) and f != "meta.json" and os.path.getsize(os.path.join(outdir, f)) < 200000:
            shutil.copy(os.path.join(outdir, f), os.path.join(dst, f))
    res["ran"] = ["git worktree add <worktree> HEAD; demonstration on clean tree; git apply patch.diff; demonstration; "
                  "go build/test of touched packages; VERIF_REPO=<worktree> python3 tools/check.py %s --tier %s" % (prop, tier)]
    json.dump(res, open(os.path.join(dst, "meta.json"), "w"), indent=1)
    print(json.dumps({k: res[k] for k in ("seed_id", "demonstration", "check")}, indent=1)[:2500])
    sh("git -C /repo worktree remove --force %s" % WT)
    # the per-worktree binaries tools/vlib.py built for this tree
    shutil.rmtree(os.path.join(VERIF, ".build", "bin-" + hashlib.sha1(WT.encode()).hexdigest()[:8]), ignore_errors=True)


if __name__ == "__main__":
    main()
