"""C12 — compiled Go programs do what the source does; compilation always terminates.

proof:   lean/BMV/Props/C12.lean
           protocol: proto_deadlock_current (the unchanged notification order has a reachable
           deadlock), proto_terminates_fixed (notify-before-answer: no reachable stuck state, exactly
           one enabled rendezvous, rank bounds the run, every schedule ends in the final state);
           compiler (core subset): alloc_inv, compile_correct_* (see docs/C12.md for what is partial).
tie:     harness/cmd/c12 (in-process, the real pkg/bondgo with the wiring of cmd/bondgo main):
           (a) protocol scenarios: the harness plays the visitor against the real Var_assigner and
               Usage_Monitor under forced schedules (hook VERIF_SCHED_SEED); a hang (all goroutines of
               the case blocked on channels) is compared with the fixed model (never) and classified
               with the unchanged-order model; allocator answers compared with `fresh`/`erase`;
           (b) compiler: generated programs compiled under several schedules; assembly text compared
               with `compile p` (exact), Usage_Monitor's tables with the model's requirement counts,
               the emitted code executed by the oracle's ISA interpreter and compared with `goEval`;
           (c) the real cmd/bondgo binary (child process, deadline + SIGQUIT goroutine dump) on a
               sample of the programs under several seeds / GOMAXPROCS: must exit, and write the same
               assembly every time.
"""
import json
import os
import signal
import subprocess
import time

import vlib

LEVEL = "proof"
PROP = "C12"
MODULES = ["BMV.Props.C12"]
EXE = "oracle-c12"

KF_NOTIFY = "C12-notify-order"
KF_INCDEC = "C12-incdec-scope"
KF_JE = "C12-je-stub"
KF_ROMEND = "C12-rom-end-address"

KF_TEXT = {
    KF_NOTIFY: "bondgo hangs: Var_assigner answers the requester before it notifies Usage_Monitor; after "
               "the last allocation main sends TR_EXIT, the monitor exits and the allocator blocks forever "
               "on its pending notification (runinfo.go, cmd/bondgo/bondgo.go:224-229)",
    KF_INCDEC: "bondgo miscompiles x++/x-- nested two or more if/for levels below the declaration of x: "
               "the inc/dec lines are written into the sub-program of the scope that owns the variable "
               "(visiter.go IncDecStmt: scope.WriteLine) instead of the current one, so they execute at the "
               "wrong place and shift the enclosing jump targets",
    KF_ROMEND: "a compiled program of exactly 2^k lines that jumps to its end (if / for exit at the end of main) "
               "cannot be assembled for the machine bondgo requests: O = Needed_bits(Romsize) has no room for the "
               "address Romsize, the assembler refuses the jump and the saved machine has an empty program",
    KF_JE: "the compiler lowers == to the opcode je, which procbuilder implements as a no-op in assembler, "
           "HDL and simulator (op_je.go): every compiled comparison is false on the machine it requests",
}


def _oracle():
    return os.path.join(vlib.LEAN, ".lake", "build", "bin", EXE)


def kvs(fields):
    d = {}
    for f in fields:
        if "=" in f:
            k, v = f.split("=", 1)
            d[k] = v
    return d


def run_oracle(lines):
    rc, so, se = vlib.run([_oracle()], input_bytes=("\n".join(lines) + "\n").encode(), timeout=900)
    if rc != 0:
        raise RuntimeError("oracle failed rc=%s: %s" % (rc, se[-2000:]))
    return so.splitlines()


def run_harness(hbin, args, timeout=1200):
    rc, so, se = vlib.run([hbin] + args, timeout=timeout, env=vlib.goenv())
    if rc != 0:
        raise RuntimeError("harness failed rc=%s: %s" % (rc, (se or so)[-3000:]))
    return so.splitlines()


# ------------------------------------------------------------------------------------------------
# compiler correspondence

def is_prefix(a, b):
    return len(a) <= len(b) and b[:len(a)] == a


def parse_outs(s):
    return [x for x in s.split(",") if x]


class Case:
    def __init__(self, cid):
        self.id = cid
        self.prog = None
        self.tags = []
        self.meta = {}
        self.impl = None
        self.impl_line = None
        self.impldiff = []
        self.ireq = {}
        self.isch = []
        self.m = None
        self.mr = None
        self.src = None
        self.mrun = None
        self.irun = None
        self.irun_jenop = None
        self.imach = {}
        self.wf = None


def collect_cases(hlines, olines):
    cases = {}

    def get(cid):
        if cid not in cases:
            cases[cid] = Case(cid)
        return cases[cid]

    for l in hlines + olines:
        fs = l.split(" ")
        if len(fs) < 2:
            continue
        tag, cid = fs[0], fs[1]
        if tag not in ("PROG", "TAG", "IMPL", "IMPLDIFF", "IREQ", "IMACH", "ISCH", "M", "MR", "WF", "SRC", "MRUN", "IRUN", "IRUNJENOP"):
            continue
        c = get(cid)
        d = kvs(fs[2:])
        if tag == "PROG":
            c.prog = l
            c.meta = d
        elif tag == "TAG":
            c.tags = [t for t in (fs[2] if len(fs) > 2 else "").split(",") if t]
            c.meta.update(kvs(fs[3:]))
        elif tag == "IMPL":
            c.impl = l.split(" asm=", 1)[1] if " asm=" in l else ""
            c.impl_line = l
        elif tag == "IMPLDIFF":
            c.impldiff.append(l)
        elif tag == "IREQ":
            c.ireq[d.get("sched", "?")] = d
        elif tag == "IMACH":
            c.imach[d.get("sched", "?")] = d
        elif tag == "ISCH":
            c.isch.append(d)
        elif tag == "M":
            c.m = l.split(" asm=", 1)[1] if " asm=" in l else ""
        elif tag == "WF":
            c.wf = d
        elif tag == "MR":
            c.mr = d
        elif tag == "SRC":
            c.src = d
        elif tag == "MRUN":
            c.mrun = d
        elif tag == "IRUN":
            c.irun = d
        elif tag == "IRUNJENOP":
            c.irun_jenop = d
    return cases


def sem_verdict(src, run):
    """compare goEval (src) with an ISA run: 'ok' | 'inconclusive' | 'differ'.
    run['exact'] == '1': the run had 2*n*+200 instructions, n* = what the model's code needs to
    reproduce goEval's outputs — falling short of them within that budget counts as 'differ'."""
    so, ro = parse_outs(src.get("outs", "")), parse_outs(run.get("outs", ""))
    exact = run.get("exact") == "1"
    if src.get("done") == "1":
        if run.get("end") == "1":
            return "ok" if so == ro else "differ"
        if exact:
            return "differ"
        # the machine is still running after the step budget: its outputs must not contradict
        return "inconclusive" if is_prefix(ro, so) else "differ"
    # source ran out of loop fuel: everything it produced must be produced by the machine, in order
    if is_prefix(so, ro):
        return "ok"
    if run.get("end") == "1" or exact:
        return "differ"
    return "inconclusive" if is_prefix(ro, so) else "differ"


# programs whose s-expression is an equivalent program rather than the statement the compiler sees
# (`reg_x := e`, corpus cases marked "exec_only"): tied through execution, resources and machine only,
# never through the assembly text.  (`switch` is in the model since round 7: text equality.)
NOTEXT_TAGS = ("define-reg", "exec-only")
REFUSED = "!refused:already-defined"


def judge_case(c):
    """-> list of (kind, detail).  kinds: hang, nondeterministic-output, faulty, text, requirements,
    semantics, model-self-check"""
    fails = []
    for s in c.isch:
        ex = s.get("exit", "")
        if ex.startswith("hang") or ex.startswith("timeout"):
            fails.append(("hang", {"sched": s.get("sched"), "exit": ex}))
        elif ex.startswith("panic") or ex.startswith("parse-error"):
            fails.append(("impl-panic", {"sched": s.get("sched"), "exit": ex}))
        elif ex.startswith("faulty"):
            fails.append(("faulty", {"sched": s.get("sched"), "exit": ex}))
        if s.get("same") == "0":
            fails.append(("nondeterministic-output", {"sched": s.get("sched")}))
    if c.m == REFUSED or "redeclare" in c.tags:
        # `:=` of a name already declared in the same block: the model refuses it (redeclProg), the
        # generator built it to be refused, and the compiler has to refuse it under every schedule
        # ("Already defined variable") — no crash, no hang, no code
        fails = [f for f in fails if f[0] != "faulty"]
        if c.m != REFUSED:
            fails.append(("model-self-check", {"a program generated with a same-scope := is not refused by the model": c.m}))
        exits = sorted({s.get("exit", "") for s in c.isch})
        if not exits or not all(e.startswith("faulty") and "Already_defined_variable" in e for e in exits):
            if not any(k in ("hang", "impl-panic") for k, _ in fails):
                fails.append(("accepts-redeclaration", {"model": "refused: already defined", "exits": exits[:4],
                                                        "assembly": (c.impl or "")[:400]}))
        return fails
    fails += resource_fails(c)
    if c.m is None or c.m.startswith("!"):
        fails.append(("model-self-check", {"model": c.m}))
        return fails
    if c.wf is not None and c.wf.get("xeq", "1") != "1":
        # the extended compiler / semantics disagree with `compile` / `goEval` on a program without
        # break / continue / post clause: the theorems would not be about what is compared
        fails.append(("model-self-check", {"compileX/execX vs compile/exec on a plain program": c.wf}))
    if c.wf is not None and (c.wf.get("wf") != "1" or c.wf.get("scoped") != "1" or c.wf.get("nostray", "1") != "1"):
        # the hypotheses of compile_correct_wf / compile_correct_full do not hold for a generated program:
        # the theorem says nothing about it (generator or blockLocs placement problem)
        fails.append(("theorem-hypothesis", {"wfProg/scopedProg/noStray": c.wf}))
    if c.src is not None and c.mrun is not None and sem_verdict(c.src, c.mrun) == "differ":
        fails.append(("model-self-check", {"src": c.src, "mrun": c.mrun}))
    if c.impl is None:
        return fails
    # programs with a `switch` are written for the model as the equivalent if/else chain: their assembly
    # is not expected to be the model's, they are tied through execution (and resources / machine) only
    notext = any(t in c.tags for t in NOTEXT_TAGS)
    if c.impl != c.m and not notext:
        il, ml = c.impl.split(";"), c.m.split(";")
        k = next((i for i in range(min(len(il), len(ml))) if il[i] != ml[i]), min(len(il), len(ml)))
        fails.append(("text", {"first_diff_line": k, "impl": il[k:k + 3], "model": ml[k:k + 3],
                               "impl_len": len(il), "model_len": len(ml)}))
    if c.irun is not None and c.src is not None:
        if not c.irun.get("parse", "").startswith("ok"):
            fails.append(("semantics", {"why": "emitted line outside the modelled instruction subset",
                                        "irun": c.irun}))
        else:
            v = sem_verdict(c.src, c.irun)
            if v == "differ":
                fails.append(("semantics", {"goEval": c.src, "machine": c.irun}))
    if c.mr is not None:
        ok_scheds = {s.get("sched") for s in c.isch if s.get("exit") == "ok"}
        for sched, rq in c.ireq.items():
            if sched not in ok_scheds:
                continue   # the monitor's tables are only final when the exit protocol completed
            exp = {"regs": c.mr.get("regs"), "ram": c.mr.get("ram"), "rom": c.mr.get("rom"),
                   "ops": c.mr.get("ops"), "ins": c.meta.get("nin"), "outs": c.meta.get("nout")}
            got = {k: rq.get(k) for k in exp}
            if c.impl == c.m and exp != got and not notext:
                fails.append(("requirements", {"sched": sched, "model": exp, "impl": got}))
                break
    return fails


def asm_usage(asm):
    """what an assembly text needs: (registers, ram cells, inputs, outputs, lines)"""
    regs = ram = ins = outs = 0
    lines = [l for l in asm.split(";") if l]
    for l in lines:
        f = l.split()
        for a in f[1:]:
            if a[:1] == "r" and a[1:].isdigit():
                regs = max(regs, int(a[1:]) + 1)
            elif a[:1] == "i" and a[1:].isdigit():
                ins = max(ins, int(a[1:]) + 1)
            elif a[:1] == "o" and a[1:].isdigit():
                outs = max(outs, int(a[1:]) + 1)
        if f and f[0] in ("m2r", "r2m") and len(f) == 3 and f[2].isdigit():
            ram = max(ram, int(f[2]) + 1)
    return {"regs": regs, "ram": ram, "ins": ins, "outs": outs, "rom": len(lines)}


def rom_end_address_case(c, mach):
    """the documented pre-existing defect C12-rom-end-address: the program has exactly 2^O lines and the
    instruction the assembler refuses is a jump to the end address (= 2^O, one bit too wide)"""
    msg = mach.get("msg", "")
    try:
        lines, o = int(mach.get("lines", "0")), int(mach.get("O", "0"))
    except ValueError:
        return False
    if lines != (1 << o) or "operand_does_not_fit" not in msg or "_on_line_" not in msg:
        return False
    try:
        k = int(msg.rsplit("_on_line_", 1)[1].split("|")[0])
    except ValueError:
        return False
    il = (c.impl or "").split(";")
    for kk in (k, k - 1):      # the message counts lines from 0 or from 1 depending on the assembler path
        if 0 <= kk < len(il):
            f = il[kk].split()
            if f and f[0] in ("j", "jz", "je") and f[-1] == str(lines):
                return True
    return False


def resource_fails(c):
    """the emitted program against the machine the compiler requests for it (the property itself:
    'run on the machine it requests'): every register / RAM cell / port / ROM line the code uses must
    exist in Usage_Monitor's tables, and the machine built from them must contain the whole program"""
    fails = []
    if c.impl is None:
        return fails
    need = asm_usage(c.impl)
    ok_scheds = {s.get("sched") for s in c.isch if s.get("exit") == "ok"}
    for sched in sorted(c.ireq):
        if sched not in ok_scheds:
            continue
        rq = c.ireq[sched]
        short = {k: (need[k], rq.get(k)) for k in need if str(rq.get(k, "")).isdigit() and int(rq[k]) < need[k]}
        if short:
            fails.append(("resources", {"sched": sched, "needed_vs_requested": short, "requested": rq}))
            break
    for sched in sorted(c.imach):
        if sched not in ok_scheds:
            continue
        m = c.imach[sched]
        if m.get("slocs") != m.get("lines"):
            if rom_end_address_case(c, m):
                fails.append(("rom-end-address", {"sched": sched, "machine": m}))
            else:
                fails.append(("machine", {"sched": sched, "machine": m,
                                          "why": "the machine built from the requirements does not contain the emitted program"}))
            break
    return fails


def go_source(dirpath, cid):
    try:
        return open(os.path.join(dirpath, "p%s.go" % cid)).read()
    except OSError:
        return ""


# ------------------------------------------------------------------------------------------------
# the real CLI in child processes

def run_cli(bondgo, src_path, w, seed, gomaxprocs, workdir, deadline=4.0):
    """-> (status, asm_text or None, detail).  status: ok | hang | error"""
    outp = os.path.join(workdir, "cli.asm")
    if os.path.exists(outp):
        os.remove(outp)
    env = vlib.goenv()
    env["VERIF_SCHED_SEED"] = seed
    env["GOMAXPROCS"] = str(gomaxprocs)
    env["GOTRACEBACK"] = "all"
    p = subprocess.Popen([bondgo, "-input-file", src_path, "-register-size", str(w), "-save-assembly", outp],
                         stdout=subprocess.PIPE, stderr=subprocess.PIPE, env=env, cwd=workdir)
    try:
        so, se = p.communicate(timeout=deadline)
    except subprocess.TimeoutExpired:
        # ask the Go runtime for a goroutine dump: a deadlock shows the allocator in "chan send"
        p.send_signal(signal.SIGQUIT)
        try:
            so, se = p.communicate(timeout=10)
        except subprocess.TimeoutExpired:
            p.kill()
            so, se = p.communicate()
        dump = se.decode("utf-8", "replace")
        blocked = "Var_assigner" in dump and "chan send" in dump
        return "hang", None, {"assigner_blocked_in_chan_send": blocked, "deadline_s": deadline}
    if p.returncode != 0 and "all goroutines are asleep - deadlock" in se.decode("utf-8", "replace"):
        # built without cgo the Go runtime detects the deadlock itself and aborts
        dump = se.decode("utf-8", "replace")
        return "hang", None, {"assigner_blocked_in_chan_send": "Var_assigner" in dump and "chan send" in dump,
                              "go_runtime": "fatal error: all goroutines are asleep - deadlock!"}
    if p.returncode != 0:
        return "error", None, {"rc": p.returncode, "stderr": se.decode("utf-8", "replace")[-600:]}
    try:
        txt = open(outp).read()
    except OSError:
        return "error", None, {"rc": 0, "stderr": "no assembly written: " + so.decode("utf-8", "replace")[-300:]}
    return "ok", ";".join(txt.strip("\n").split("\n")) if txt.strip() else "", {}


# ------------------------------------------------------------------------------------------------

def corpus_cases():
    d = os.path.join(vlib.CORPUS, PROP)
    if not os.path.isdir(d):
        return []
    res = []
    for f in sorted(os.listdir(d)):
        if f.endswith(".json"):
            try:
                res.append((f, json.load(open(os.path.join(d, f)))))
            except ValueError:
                pass
    return res


def run_program_case(hbin, case, workdir, cid="900000"):
    """case: {w, decls, body, go, salt?} -> Case"""
    src = os.path.join(workdir, "p%s.go" % cid)
    open(src, "w").write(case["go"])
    salt = int(case.get("salt", 0))
    hl = run_harness(hbin, ["compilefile", src, cid, str(case["w"]), str(salt), str(case.get("proc", 0))])
    prog = "PROG %s w=%s fuel=10 steps=6000 salt=%d decls=%s body=%s" % (cid, case["w"], salt, case["decls"], case["body"])
    hl = [prog, "TAG %s corpus%s n=0 nin=%s nout=%s" % (cid, ",exec-only" if case.get("exec_only") else "",
                                                       case.get("nin", 0), case.get("nout", 1))] + hl
    ol = run_oracle([l for l in hl if l.startswith("PROG") or l.startswith("IMPL ")])
    return collect_cases(hl, ol)[cid]


def corpus_program(hbin, case, workdir, cid):
    """one corpus program -> (c or None, extra); extra = failures judge_case does not see: the compiler
    crashing the harness process (Var_assigner panics in its own goroutine), goEval disagreeing with
    the outputs of the Go program recorded in the case ("expect_outs", port:value,...)"""
    extra = []
    try:
        c = run_program_case(hbin, case, workdir, cid)
    except RuntimeError as e:
        return None, [("impl-panic", {"harness_process": str(e)[-700:]})]
    if case.get("expect") == "rejected" and c.m != REFUSED:
        extra.append(("model-self-check", {"the case expects a refusal, the model says": c.m}))
    if "expect_outs" in case and c.src is not None:
        want, got = parse_outs(case["expect_outs"]), parse_outs(c.src.get("outs", ""))
        if got != want:
            extra.append(("model-self-check", {"go_outputs": want, "goEval": c.src}))
    return c, extra


def judge_proto(pm, pimpls):
    """-> list of (kind, detail)"""
    fails = []
    d = kvs(pm.split(" ")[2:])
    if d.get("fixed_final") != "1" or d.get("fixed_unique") != "1":
        fails.append(("model-self-check", {"pm": pm}))
    for pl in pimpls:
        p = kvs(pl.split(" ")[2:])
        res = p.get("result", "")
        if res.startswith("hang") or res.startswith("timeout"):
            predicted = (d.get("cur_forced") == "hang") if p.get("sched") == "s1:300" else (d.get("cur_deadlock") == "1")
            fails.append(("hang", {"sched": p.get("sched"), "result": res,
                                   "predicted_by_unchanged_order_model": predicted}))
            continue
        if res != "ok":
            fails.append(("impl-panic", {"sched": p.get("sched"), "result": res}))
            continue
        if p.get("ids") != d.get("ids"):
            fails.append(("allocator", {"sched": p.get("sched"), "impl_ids": p.get("ids"), "model_ids": d.get("ids")}))
    return fails


def private_harness(workdir):
    import shutil
    dst = os.path.join(workdir, "h-c12-run")
    last = None
    for _ in range(4):
        src = vlib.go_build("c12")
        try:
            shutil.copy2(src, dst)
            return dst
        except OSError as e:
            last = e
            time.sleep(0.5)
    raise vlib.BuildError("harness binary disappeared while copying: %s" % last)


def private_cli(workdir):
    """cmd/bondgo built from the tree, copied into this run's scratch directory: other checks rebuild
    (delete + build) the shared .build/bin/bondgo concurrently"""
    import shutil
    dst = os.path.join(workdir, "bondgo-cli")
    last = None
    for _ in range(4):
        src = vlib.go_build_repo("bondgo")
        try:
            shutil.copy2(src, dst)
            return dst
        except OSError as e:
            last = e
            time.sleep(0.5)
    raise vlib.BuildError("cmd/bondgo binary disappeared while copying: %s" % last)


def judge_chan(line, locmap, src):
    """CHAN line -> (stats-ok, list of (kind, obj))"""
    fs = line.split(" ")
    d = kvs(fs[2:])
    case = {"kind": "chanprog", "go": src, "w": d.get("w"), "srctopo": d.get("srctopo"),
            "expected": d.get("expected"), "locmap": locmap}
    res = []
    ex = d.get("exit", "")
    if ex != "ok":
        kind = "hang" if ex.startswith("hang") or ex.startswith("timeout") else ("impl-panic" if ex.startswith("panic") else "faulty")
        res.append((kind, {"property": PROP, "kind": kind, "go": src, "detail": {"exit": ex}, "case": case}))
        return res
    if d.get("srctopo") != d.get("reqtopo"):
        res.append(("channel-topology", {"property": PROP, "kind": "channel-topology", "go": src, "case": case,
                                         "detail": {"topology_the_source_implies": d.get("srctopo"),
                                                    "topology_the_compiler_requests": d.get("reqtopo"),
                                                    "format": "global channel id : processors attached (0 = main, g+1 = g-th go statement)"}}))
    if d.get("expected") != d.get("got"):
        res.append(("semantics", {"property": PROP, "kind": "semantics", "go": src, "case": case,
                                  "detail": {"go_semantics_outputs_of_main": d.get("expected"),
                                             "emitted_code_on_the_requested_topology": d.get("got")}}))
    return res


def run(rep):
    thorough = rep.tier == "thorough"
    t_phase = {"start": time.monotonic()}
    pr = vlib.prove(PROP, MODULES, exes=[EXE], leanchecker=thorough)
    t_phase["proved"] = time.monotonic()
    rep.add_proof(pr, "lake build BMV.Props.C12 && lake env lean <#audit_module BMV.Props.C12>"
                  + (" && lake env leanchecker BMV.Props.C12" if thorough else ""),
                  ["BMV.BondgoProto / BMV.Bondgo are hand-written models of pkg/bondgo (protocol; compiler core subset), tied by correspondence only",
                   "ISA semantics of the emitted subset written in BMV.Bondgo.execInstr: r2m/m2r taken from the HDL templates "
                   "(op_r2m.go, op_m2r.go; their Go Simulate methods are stubs), je given the meaning the compiler relies on "
                   "(procbuilder's je is a no-op in every back-end), the rest from the Simulate methods",
                   "harness generator prints each program twice (Go source, s-expression); the two printers are trusted to agree",
                   "hang detection: consistent goroutine dump (in-process), deadline + SIGQUIT dump (child processes)",
                   "hook pkg/bondgo/verif_on.go (repo_patches/C12-hook.diff): forced schedules only take effect when it is applied"])
    rep.assumptions += [
        "a run ends when the pc leaves the program (what the hardware does after the last instruction is outside the model)",
        "inputs: the k-th IORead overall returns env(port,k) on both sides (inputs may change between reads)",
        "literals are smaller than 2^registersize (Go rejects the others at type-check time)",
        "modelled subset: top-level declarations, memory variables declared inside if/for bodies (shadowing included; the "
        "model works on unique variable indices = the program after Go's name resolution, done by the generator), "
        "=, ++/--, + * ==, if/else, for [cond], IORead/IOWrite/Make; functions, goroutines, channels, select, switch, "
        "break/continue, for init/post, := and register variables declared inside blocks are not modelled",
    ]
    known = {f.get("id"): f for f in vlib.load_known_findings(PROP)}
    workdir = vlib.scratch_dir("c12-%d%s" % (rep.seed, vlib._REPO_TAG))
    hbin = private_harness(workdir)
    bondgo = private_cli(workdir)
    for f in os.listdir(workdir):
        if f.endswith(".go") or f.endswith(".asm"):
            os.remove(os.path.join(workdir, f))
    oracle_ok = os.path.exists(_oracle())
    t_phase["built"] = time.monotonic()

    findings = []      # (kf_id or None, kind, replay_obj)
    stats = {"programs": 0, "schedule_runs": 0, "proto_scenarios": 0, "proto_runs": 0, "cli_runs": 0,
             "tags": {}, "inconclusive": 0, "text_equal": 0, "semantics_ok": 0}
    distinct = set()
    samples = []

    def add_finding(kfid, kind, obj):
        findings.append((kfid, kind, obj))

    if oracle_ok:
        # ---- 0. je probe
        je = run_harness(hbin, ["probeje"])
        je_stub = any(l.strip() == "JE stub=1" for l in je)
        rep.coverage["je_is_stub_in_procbuilder"] = je_stub

        # ---- 1. corpus
        for cidx, (name, case) in enumerate(corpus_cases()):
            if case.get("kind") == "chanprog":
                srcp = os.path.join(workdir, "corpus-chan.go")
                open(srcp, "w").write(case["go"])
                hl = run_harness(hbin, ["chanfile", srcp, "0", str(case["w"]), case["srctopo"], case["expected"], case["locmap"]])
                for l in hl:
                    if l.startswith("CHAN "):
                        stats["channel_programs"] = stats.get("channel_programs", 0) + 1
                        for kind, obj in judge_chan(l, case["locmap"], case["go"]):
                            add_finding(None, kind, obj)
            elif case.get("kind") == "proto":
                hl = run_harness(hbin, ["protoreplay", case["acts"]])
                ol = run_oracle([l for l in hl if l.startswith("PROTO")])
                pm = next((l for l in ol if l.startswith("PM ")), "PM 0")
                for kind, det in judge_proto(pm, [l for l in hl if l.startswith("PIMPL")]):
                    classify_proto(add_finding, kind, det, case["acts"])
                stats["proto_scenarios"] += 1
            else:
                c, extra = corpus_program(hbin, case, workdir, str(900000 + cidx))   # the harness takes numeric ids
                stats["programs"] += 1
                for kind, det in extra:
                    add_finding(None, kind, {"property": PROP, "kind": kind, "go": case["go"], "w": case["w"],
                                             "detail": det, "case": case})
                if c is not None:
                    handle_case(c, case["go"], case, None, add_finding, stats, distinct)

        # ---- 2. protocol scenarios
        n_proto = 400 if thorough else 60
        hl = run_harness(hbin, ["proto", str(n_proto)])
        ol = run_oracle([l for l in hl if l.startswith("PROTO")])
        pms = {l.split(" ")[1]: l for l in ol if l.startswith("PM ")}
        acts = {l.split(" ")[1]: kvs(l.split(" ")[2:]).get("acts", "") for l in hl if l.startswith("PROTO")}
        pimpl = {}
        for l in hl:
            if l.startswith("PIMPL"):
                pimpl.setdefault(l.split(" ")[1], []).append(l)
        for pid, a in acts.items():
            stats["proto_scenarios"] += 1
            stats["proto_runs"] += len(pimpl.get(pid, []))
            distinct.add(("proto", a))
            for kind, det in judge_proto(pms.get(pid, "PM ?"), pimpl.get(pid, [])):
                classify_proto(add_finding, kind, det, a)
        if acts:
            k0 = sorted(acts)[0]
            samples.append({"protocol_scenario": acts[k0], "impl": pimpl.get(k0, [])[:2], "model": pms.get(k0)})

        t_phase["protocol"] = time.monotonic()
        # ---- 3. generated programs
        n_prog = 600 if thorough else 75
        gendir = os.path.join(workdir, "gen")
        os.makedirs(gendir, exist_ok=True)
        try:
            hl = run_harness(hbin, ["gen", str(n_prog), gendir, "30"], timeout=3000)
        except RuntimeError as e:
            # the compiler took the harness process down (a panic in Var_assigner / Usage_Monitor cannot be
            # recovered in-process): reported, the remaining phases still run
            hl = []
            add_finding(None, "impl-panic", {"property": PROP, "kind": "impl-panic", "go": "",
                                             "detail": {"harness_process_died_in": "generated programs", "stderr": str(e)[-1500:]}})
        ol = run_oracle([l for l in hl if l.startswith("PROG") or l.startswith("IMPL ")])
        cases = collect_cases(hl, ol)
        stats["generator_skipped"] = sum(1 for l in hl if l.startswith("GENBUG"))
        twins = {}
        for cid, c in cases.items():
            for t in c.tags:
                if t.startswith("twin-of-"):
                    twins[t[len("twin-of-"):]] = c
        for cid in sorted(cases, key=lambda x: int(x)):
            c = cases[cid]
            stats["programs"] += 1
            src = go_source(gendir, cid)
            handle_case(c, src, None, twins.get(cid), add_finding, stats, distinct)
            if len(samples) < 4 and c.impl is not None and int(cid) < 100000:
                samples.append({"program": src, "sexpr": (c.prog or "").split(" body=", 1)[-1],
                                "assembly": c.impl, "goEval": c.src, "machine": c.irun})

        # ---- 3b. several channels, several goroutines: requested topology and execution on it
        t_phase["programs"] = time.monotonic()
        chdir = os.path.join(workdir, "chan")
        os.makedirs(chdir, exist_ok=True)
        n_chan = 200 if thorough else 30
        hl = run_harness(hbin, ["chan", str(n_chan), chdir])
        locmaps = {l.split(" ")[1]: kvs(l.split(" ")[2:]).get("locmap", "") for l in hl if l.startswith("CHANSRC ")}
        for l in hl:
            if not l.startswith("CHAN "):
                continue
            cid = l.split(" ")[1]
            try:
                csrc = open(os.path.join(chdir, "ch%s.go" % cid)).read()
            except OSError:
                csrc = ""
            stats["channel_programs"] = stats.get("channel_programs", 0) + 1
            fs_ = judge_chan(l, locmaps.get(cid, ""), csrc)
            if not fs_:
                stats["channel_programs_ok"] = stats.get("channel_programs_ok", 0) + 1
                distinct.add(("chan", csrc))
            for kind, obj in fs_:
                add_finding(None, kind, obj)
            if cid == "0":
                samples.append({"channel_program": csrc, "result": l})

        # je stub: a concrete program whose compiled code behaves differently on a machine with the
        # real (no-op) je
        if je_stub:
            wit = None
            for cid in sorted(cases, key=lambda x: int(x)):
                c = cases[cid]
                if c.irun_jenop and c.src and c.irun and sem_verdict(c.src, c.irun) == "ok" \
                        and sem_verdict(c.src, c.irun_jenop) == "differ":
                    wit = c
                    break
            obj = {"property": PROP, "kind": "je-stub", "what": KF_TEXT[KF_JE]}
            if wit is not None:
                obj.update({"case": {"kind": "program", "w": wit.meta.get("w"), "decls": wit.meta.get("decls"),
                                     "body": (wit.prog or "").split(" body=", 1)[-1], "go": go_source(gendir, wit.id),
                                     "salt": wit.meta.get("salt", 0), "nin": wit.meta.get("nin", 0),
                                     "nout": wit.meta.get("nout", 1)},
                            "go": go_source(gendir, wit.id), "w": wit.meta.get("w"), "assembly": wit.impl,
                            "goEval": wit.src, "machine_with_noop_je": wit.irun_jenop,
                            "machine_with_intended_je": wit.irun})
            add_finding(KF_JE, "je-stub", obj)

        t_phase["channels"] = time.monotonic()
        # ---- 4. the real CLI
        ids = [cid for cid in sorted(cases, key=lambda x: int(x)) if cases[cid].impl is not None and int(cid) < 100000
               and "go-stmt" not in cases[cid].tags]   # -save-assembly writes processor 0 only; pairs are checked in-process
        pick = ids[:: max(1, len(ids) // (12 if thorough else 4))][: (12 if thorough else 4)]
        seeds = ["0", "s1:2000", "s2:150", str(rep.seed * 17 + 3)] + (["s4:2000", str(rep.seed * 31 + 7)] if thorough else [])
        for cid in pick:
            c = cases[cid]
            srcp = os.path.join(gendir, "p%s.go" % cid)
            for k, sd in enumerate(seeds):
                st, txt, det = run_cli(bondgo, srcp, c.meta.get("w", "8"), sd, 1 + (k % 4), workdir)
                stats["cli_runs"] += 1
                if st == "hang":
                    obj = {"property": PROP, "kind": "hang", "where": "cmd/bondgo child process", "go": go_source(gendir, cid),
                           "w": c.meta.get("w"), "VERIF_SCHED_SEED": sd, "GOMAXPROCS": 1 + (k % 4), "detail": det}
                    kf = KF_NOTIFY if det.get("assigner_blocked_in_chan_send") else None
                    add_finding(kf, "hang", obj)
                elif st == "error":
                    add_finding(None, "cli-error", {"property": PROP, "kind": "cli-error", "go": go_source(gendir, cid),
                                                    "w": c.meta.get("w"), "VERIF_SCHED_SEED": sd, "detail": det})
                elif txt != c.impl:
                    add_finding(None, "nondeterministic-output",
                                {"property": PROP, "kind": "nondeterministic-output", "go": go_source(gendir, cid),
                                 "w": c.meta.get("w"), "VERIF_SCHED_SEED": sd, "cli_asm": txt, "inprocess_asm": c.impl})

    t_phase["cli"] = time.monotonic()
    ks = list(t_phase)
    rep.coverage["phase_seconds"] = {ks[i]: round(t_phase[ks[i]] - t_phase[ks[i - 1]], 1) for i in range(1, len(ks))}
    rep.coverage.update({
        "evaluations": stats["programs"] + stats["proto_scenarios"] + stats.get("channel_programs", 0),
        "distinct_nontrivial": len(distinct),
        "rule": "programs: seeded generator over the modelled subset (3..30 statements, nesting <= 3, register sizes "
                "8/16/32/64, 1..4 variables, 0..2 inputs, 1..2 outputs); non-trivial = the real compiler produced "
                "assembly and it was compared (text, requirements, execution) — distinct by assembly text; protocol "
                "scenarios: seeded action lists (new/remove register, memory, input, output, channel, attach, direct "
                "notification) — distinct by action list; each run under the schedules 0, s1 (allocator loses), s2 "
                "(allocator wins), s4 and one pseudo-random seed",
        "samples": samples or [{"note": "correspondence did not run"}],
        "traces_validated_against_impl": stats["schedule_runs"] + stats["proto_runs"] + stats["cli_runs"],
        "input_distribution": stats,
        "unmodelled": ["functions / go statements / channels / select / switch / break / continue / for init+post / := / "
                       "reg_ variables declared inside blocks / bool variables / etherbond, udpbond, multi-processor output",
                       "well-formedness of the machine JSON beyond 'built from the requirement tables and contains the "
                       "whole emitted program' (C16's WfBM is not available to this check)"],
    })

    # ---- outcome: one report per finding id / kind, preferring a case with a concrete failing input
    prio = {"incdec-scope": 0, "semantics": 0, "hang": 0, "resources": 0, "machine": 0}
    findings.sort(key=lambda f: (prio.get(f[1], 1), len(f[2].get("go") or f[2].get("acts") or "") or 10 ** 9))
    reported = set()
    for kfid, kind, obj in findings:
        if kfid is not None and kfid in known:
            if kfid not in reported:
                rep.known(known[kfid].get("what_fails", KF_TEXT[kfid]))
                reported.add(kfid)
            continue
        key = kfid or kind
        if key in reported:
            continue
        reported.add(key)
        obj = dict(obj)
        obj["replay"] = "python3 tools/check.py C12 --replay <this file>"
        if kfid is not None:
            obj["proposed_known_finding_id"] = kfid
        real = kind in ("hang", "semantics", "impl-panic", "nondeterministic-output", "je-stub", "cli-error",
                        "incdec-scope", "faulty", "resources", "machine", "rom-end-address", "channel-topology",
                        "accepts-redeclaration")
        if real:
            rep.violation(obj, tag="finding=" + (kfid or kind))
        else:
            obj["broken"] = ["correspondence (%s)" % kind]
            obj["searched"] = "%d programs executed on the ISA interpreter against goEval: the property itself held " \
                              "on all of them" % stats["semantics_ok"]
            rep.violation(obj, no_failing_input=True, tag="finding=" + kind)
    if not pr["ok"]:
        rep.violation({"property": PROP, "kind": "proof-broken", "broken": pr["broken"],
                       "searched": "%d programs / %d protocol scenarios compared" % (stats["programs"], stats["proto_scenarios"])},
                      no_failing_input=True)
    if not oracle_ok and pr["ok"]:
        rep.violation({"property": PROP, "kind": "oracle-missing", "broken": ["oracle-c12 was not built"]},
                      no_failing_input=True)


def classify_proto(add_finding, kind, det, acts):
    obj = {"property": PROP, "kind": kind, "acts": acts, "detail": det,
           "case": {"kind": "proto", "acts": acts}}
    if kind == "hang":
        kf = KF_NOTIFY if det.get("predicted_by_unchanged_order_model") and "exit-assigner" in det.get("result", "") else None
        add_finding(kf, "hang", obj)
    elif kind == "impl-panic":
        add_finding(None, "impl-panic", obj)
    else:
        add_finding(None, kind, obj)


def handle_case(c, src, corpus_case, twin, add_finding, stats, distinct):
    for t in c.tags:
        t = "twin" if t.startswith("twin-of-") else t
        stats["tags"][t] = stats["tags"].get(t, 0) + 1
    stats["schedule_runs"] += len(c.isch)
    fails = judge_case(c)
    kinds = [k for k, _ in fails]
    if c.wf is not None and c.wf.get("wf") == "1" and c.wf.get("scoped") == "1" and c.wf.get("nostray", "1") == "1":
        stats["theorem_hypotheses_hold"] = stats.get("theorem_hypotheses_hold", 0) + 1
        if c.wf.get("plain") == "1":
            stats["plain_programs"] = stats.get("plain_programs", 0) + 1
    if c.impl is not None:
        distinct.add(("prog", c.impl))
        if c.impl == c.m:
            stats["text_equal"] += 1
        elif any(t in c.tags for t in NOTEXT_TAGS):
            stats["execution_only"] = stats.get("execution_only", 0) + 1
        if c.irun is not None and c.src is not None:
            v = sem_verdict(c.src, c.irun)
            if v == "ok":
                stats["semantics_ok"] += 1
            elif v == "inconclusive":
                stats["inconclusive"] += 1
    case = corpus_case or {"kind": "program", "w": c.meta.get("w"), "decls": c.meta.get("decls"),
                           "body": (c.prog or "").split(" body=", 1)[-1], "go": src,
                           "salt": c.meta.get("salt", 0), "nin": c.meta.get("nin", 0), "nout": c.meta.get("nout", 1),
                           "proc": 1 if "goroutine" in c.tags else 0}
    for kind in set(kinds):
        fk = stats.setdefault("failing_programs_by_kind", {})
        fk[kind + ("(corpus)" if corpus_case is not None else "")] = fk.get(kind + ("(corpus)" if corpus_case is not None else ""), 0) + 1
    for kind, det in fails:
        obj = {"property": PROP, "kind": kind, "go": src, "w": c.meta.get("w"), "detail": det, "case": case}
        if kind == "hang":
            ex = det.get("exit", "")
            kf = KF_NOTIFY if ("exit-assigner" in ex) else None
            add_finding(kf, "hang", obj)
        elif kind == "rom-end-address":
            stats["rom_end_address_cases"] = stats.get("rom_end_address_cases", 0) + 1
            add_finding(KF_ROMEND, "rom-end-address", obj)
        elif kind in ("semantics", "text", "requirements"):
            deep = "incdec-deep" in c.tags or _has_deep_incdec(case.get("body", ""))
            twin_ok = twin is not None and not [k for k, _ in judge_case(twin) if k in ("semantics", "text", "requirements", "model-self-check")]
            if deep and (twin_ok or (twin is None and corpus_case is not None)):
                if "semantics" in kinds:
                    if kind == "semantics":
                        add_finding(KF_INCDEC, "incdec-scope", obj)
                elif kind == "text":
                    # misplaced but (within the explored steps) harmless: still the same defect
                    add_finding(KF_INCDEC, "incdec-scope-text", obj)
            else:
                add_finding(None, kind, obj)
        else:
            add_finding(None, kind, obj)


def _has_deep_incdec(body):
    """an (inc|dec …) below two or more if/ife/for/forc in the s-expression"""
    toks = body.replace("(", " ( ").replace(")", " ) ").split()
    stack = []
    for i, t in enumerate(toks):
        if t == "(":
            stack.append(toks[i + 1] if i + 1 < len(toks) else "")
        elif t == ")":
            if stack:
                stack.pop()
        if t in ("inc", "dec") and i > 0 and toks[i - 1] == "(":
            if sum(1 for s in stack[:-1] if s in ("if", "ife", "for", "forc")) >= 2:
                return True
    return False


def replay(rep, path):
    vlib.lake_build([EXE])
    obj = json.load(open(path))
    case = obj.get("case") or {}
    workdir = vlib.scratch_dir("c12-replay-%d" % os.getpid())
    hbin = private_harness(workdir)
    # a replay re-runs one stored case; no proof obligation is re-checked
    rep.level = "other"
    rep.coverage["explanation"] = "replay of one stored case against the current tree (correspondence only)" 
    findings = []

    def add_finding(kfid, kind, o):
        findings.append((kfid, kind, o))

    stats = {"tags": {}, "schedule_runs": 0, "text_equal": 0, "semantics_ok": 0, "inconclusive": 0}
    distinct = set()
    if case.get("kind") == "proto":
        hl = run_harness(hbin, ["protoreplay", case["acts"]])
        ol = run_oracle([l for l in hl if l.startswith("PROTO")])
        pm = next((l for l in ol if l.startswith("PM ")), "PM 0")
        for kind, det in judge_proto(pm, [l for l in hl if l.startswith("PIMPL")]):
            classify_proto(add_finding, kind, det, case["acts"])
        rep.coverage.update({"evaluations": 1, "samples": [case, hl]})
    elif case.get("kind") == "chanprog":
        srcp = os.path.join(workdir, "replay-chan.go")
        open(srcp, "w").write(case["go"])
        hl = run_harness(hbin, ["chanfile", srcp, "0", str(case["w"]), case["srctopo"], case["expected"], case["locmap"]])
        for l in hl:
            if l.startswith("CHAN "):
                for kind, o in judge_chan(l, case["locmap"], case["go"]):
                    add_finding(None, kind, o)
        rep.coverage.update({"evaluations": 1, "samples": [{"go": case["go"], "result": hl}]})
    elif obj.get("kind") == "je-stub" and case.get("kind") == "program":
        je_stub = any(l.strip() == "JE stub=1" for l in run_harness(hbin, ["probeje"]))
        c = run_program_case(hbin, case, workdir, "999999")
        rep.coverage.update({"evaluations": 1, "samples": [{"go": case["go"], "assembly": c.impl, "goEval": c.src,
                                                            "machine_with_noop_je": c.irun_jenop, "je_stub": je_stub}]})
        if je_stub and c.src and c.irun_jenop and sem_verdict(c.src, c.irun_jenop) == "differ":
            add_finding(KF_JE, "je-stub", {"property": PROP, "kind": "je-stub", "what": KF_TEXT[KF_JE], "case": case,
                                           "goEval": c.src, "machine_with_noop_je": c.irun_jenop})
    elif case.get("kind") == "program" or obj.get("go"):
        if not case:
            case = {"kind": "program", "w": obj.get("w", 8), "decls": "-", "body": "skip", "go": obj["go"]}
        c, extra = corpus_program(hbin, case, workdir, "999999")
        for kind, det in extra:
            add_finding(None, kind, {"property": PROP, "kind": kind, "go": case["go"], "w": case.get("w"),
                                     "detail": det, "case": case})
        if c is None:
            c = Case("999999")
        else:
            handle_case(c, case["go"], case, None, add_finding, stats, distinct)
        if obj.get("VERIF_SCHED_SEED") is not None:
            bondgo = private_cli(workdir)
            srcp = os.path.join(workdir, "p999999.go")
            st, txt, det = run_cli(bondgo, srcp, case.get("w", 8), obj["VERIF_SCHED_SEED"], obj.get("GOMAXPROCS", 1), workdir)
            if st == "hang":
                add_finding(KF_NOTIFY if det.get("assigner_blocked_in_chan_send") else None, "hang",
                            {"property": PROP, "kind": "hang", "go": case["go"], "detail": det})
        rep.coverage.update({"evaluations": 1, "samples": [{"go": case["go"], "assembly": c.impl, "goEval": c.src,
                                                            "machine": c.irun, "schedules": c.isch}]})
    else:
        rep.coverage.update({"evaluations": 1, "samples": [obj]})
    rep.coverage["distinct_nontrivial"] = max(2, len(distinct))
    rep.coverage["rule"] = "replay of " + path
    seen = set()
    for kfid, kind, o in findings:
        if (kfid or kind) in seen:
            continue
        seen.add(kfid or kind)
        real = kind in ("hang", "semantics", "impl-panic", "nondeterministic-output", "incdec-scope", "faulty", "je-stub",
                        "resources", "machine", "rom-end-address", "channel-topology", "accepts-redeclaration")
        rep.violation(o, no_failing_input=not real, tag="finding=" + (kfid or kind))
