"""C08 — a numeric literal has one meaning, and printing then parsing returns it (pkg/bmnumbers).

regenerated:    the keys of bmnumbers.AllMatchers (after init and after EventuallyCreateType on a spread
                of dynamic type names) are dumped by harness/cmd/c08, translated by tools/regex2lean.py
                into lean/BMV/Gen/Matchers.lean; `matchers_disjoint` (BMV/Props/C08.lean) is re-checked
                by the kernel over that table on every run.  A regex outside the translator's subset
                is an error (reported), never skipped.
witness:        `oracle-c08 pairs` prints the decision procedure's verdict for every pair that is not
                disjoint; an overlap witness is replayed on the Go side (which matchers accept it, what
                each imports) and reported as the concrete failing input.
correspondence: Regex.matchStr vs regexp.MatchString on strings drawn from every matcher's language,
                mutations, near-misses; BMV.Numbers import/export vs ImportString / ExportString /
                ExportBinary / ExportBinaryNBits / ExportVerilogBinary on integer-like literals (all
                widths 1..64, boundary values).  The property itself (unique matcher; round trip;
                widths) is evaluated on every implementation line.
options:        every export case is repeated with BMNumberConfig{OmitPrefix: true} (the only field of the
                export config; cmd/bmnumbers -omit-prefix): the text must be the full text minus the type
                prefix, and ShowPrefix() + text must import to the same value, width and type.
entry points:   ImportUint (uint8/16/32/64, optionalBits), ImportBytes (+CastType) and ExportUint64 are
                exercised on byte-distinct 64-bit values and compared with BMV.Numbers.importUint /
                importBytes / exportUint64; the property is judged against the case's input value.
direct search:  float16/32, fixed point, FXP, linear quantiser round trips are evaluated on the Go
                side only (strconv / float arithmetic is not modelled in Lean): literal-first cases and
                pattern-first cases (value built from a bit pattern with ImportBytes+CastType, every
                fixed-point format s=1..32 x f=0..s with full-width patterns), so a lossy importer
                cannot hide behind values it produced itself.
"""
import json
import os
import re
import sys

import vlib

sys.path.insert(0, os.path.dirname(os.path.dirname(os.path.abspath(__file__))))
import regex2lean  # noqa: E402

LEVEL = "proof"
PROP = "C08"
MODULES = ["BMV.Props.C08"]
EXE = "oracle-c08"
GEN = os.path.join(vlib.LEAN, "BMV", "Gen", "Matchers.lean")

# known-finding ids (proposed in docs/C08.md; effective only when listed in known_findings.json)
K_UNSIGNED = "C08-unsigned-sized-width-lost"
K_SIGNED = "C08-signed-export-unimplemented"
K_FLOAT32 = "C08-float32-export-20-decimals"
K_LQ = "C08-lq-band-truncation"
K_SIGNED_W = "C08-signed-narrow-width-lost"
K_TEXT = {
    K_UNSIGNED: "sized unsigned 0u<n>/0d<n> (n != 64): ExportString prints the bare decimal value, so re-import "
                "gives bits=64 instead of n (value and type are preserved)",
    K_SIGNED: "Signed.ExportString returns \"not implemented\": no signed value can be exported as text",
    K_FLOAT32: "Float32.ExportString prints %.20f: float32 values below about 2^-40 lose bits or collapse to 0 "
               "on re-import",
    K_SIGNED_W: "a signed value narrower than 64 bits (reachable through ImportUint+CastType, the simulator's show path) is "
                "exported as 0s<decimal>, a text without width: re-import gives the same signed value in 64 bits",
    K_LQ: "linear quantiser: ExportString prints band*bandSize and import truncates value/bandSize, which can "
          "land one band closer to zero (float rounding)",
}


def _oracle():
    return os.path.join(vlib.LEAN, ".lake", "build", "bin", EXE)


def unhex(h):
    return b"" if h == "-" else bytes.fromhex(h)


def show(h):
    return unhex(h).decode("utf-8", "replace")


def hexs(s):
    b = s if isinstance(s, bytes) else s.encode("utf-8")
    return b.hex() if b else "-"


def kvs(fields):
    d = {}
    for f in fields:
        if "=" in f:
            k, v = f.split("=", 1)
            d[k] = v
    return d


def le_val(h):
    return int.from_bytes(unhex(h), "little")


# ------------------------------------------------------------------ running the two sides

def harness(hbin, args, timeout=900):
    rc, so, se = vlib.run([hbin] + args, timeout=timeout, env=dict(vlib.goenv(), GOMEMLIMIT="2GiB"))
    if rc != 0:
        raise RuntimeError("harness c08 %s failed rc=%s: %s" % (args, rc, se[-2000:]))
    return so


def oracle(text=None, args=(), timeout=900):
    rc, so, se = vlib.run([_oracle()] + list(args), input_bytes=(text or "").encode(), timeout=timeout)
    if rc != 0:
        raise RuntimeError("oracle-c08 failed rc=%s: %s" % (rc, se[-2000:]))
    return so


# ------------------------------------------------------------------ regex side

def regenerate(hbin):
    """-> (rows, table_text, translator_error or None); writes GEN when translation succeeds"""
    table = harness(hbin, ["matchers"])
    rows = regex2lean.read_table(table)
    try:
        src = regex2lean.render(rows)
    except regex2lean.TranslateError as e:
        return rows, table, str(e)
    os.makedirs(os.path.dirname(GEN), exist_ok=True)
    old = open(GEN).read() if os.path.exists(GEN) else None
    if old != src:
        tmp = GEN + ".tmp"
        open(tmp, "w").write(src)
        os.replace(tmp, GEN)
    return rows, table, None


def compare_regex(impl, model, rows):
    """R lines of both sides.  -> stats, ambiguous [(hex, [idx])], mismatches [(hex, impl mask, model mask)]"""
    im = [l.split() for l in impl.splitlines() if l.startswith("R ")]
    mo = [l.split() for l in model.splitlines() if l.startswith("R ")]
    st = {"strings": len(im), "accepted_by_one": 0, "accepted_by_none": 0, "per_matcher": [0] * len(rows),
          "non_ascii": 0, "with_newline": 0, "distinct": set()}
    amb, mism = [], []
    if len(im) != len(mo):
        mism.append(("-", "%d lines" % len(im), "%d lines" % len(mo)))
    for a, b in zip(im, mo):
        h, mask = a[1], a[2]
        n = mask.count("1")
        raw = unhex(h)
        if any(c > 127 for c in raw):
            st["non_ascii"] += 1
        if b"\n" in raw:
            st["with_newline"] += 1
        if n == 0:
            st["accepted_by_none"] += 1
        elif n == 1:
            st["accepted_by_one"] += 1
            st["per_matcher"][mask.index("1")] += 1
            st["distinct"].add(h)
        else:
            amb.append((h, [i for i, c in enumerate(mask) if c == "1"]))
        if a[1] != b[1] or mask != b[2]:
            mism.append((h, mask, b[2]))
    return st, amb, mism


def go_detail(hbin, hexes):
    """replay strings on the Go side: which matchers accept, what each imports"""
    d = vlib.scratch_dir("c08")
    f = os.path.join(d, "check-%d.txt" % os.getpid())
    open(f, "w").write("".join(h + "\n" for h in hexes))
    out = harness(hbin, ["check", f])
    res = {}
    for l in out.splitlines():
        fs = l.split(" ", 3)
        if fs[0] == "R":
            res.setdefault(fs[1], {"mask": fs[2], "imports": []})
        elif fs[0] == "D":
            res.setdefault(fs[1], {"mask": "", "imports": []})["imports"].append(fs[2] + " " + fs[3])
    return res, out


_reported = set()


def ambiguity_violation(rep, hbin, h, rows, source):
    if h in _reported:
        return True
    det, _ = go_detail(hbin, [h])
    d = det.get(h, {"mask": "", "imports": []})
    accepted = [i for i, c in enumerate(d["mask"]) if c == "1"]
    if len(accepted) < 2:
        return False
    _reported.add(h)
    rep.violation({"property": PROP, "kind": "ambiguous-literal", "input": show(h), "input_hex": h,
                   "accepted_by": [rows[i][0] for i in accepted if i < len(rows)],
                   "each_imports": d["imports"], "found_by": source,
                   "replay": "python3 tools/check.py C08 --replay <this file>"})
    return True


# ------------------------------------------------------------------ numbers side

PREFIX = {"unsigned": "0u", "signed": "0s", "hex": "0x", "bin": "0b"}


def omit_eval(f, ty, bits, val, es, what, sext64=None):
    """the export option OmitPrefix, judged on one implementation line: the text with the option must be the
    full text without its type prefix, and prefix + that text must import to the same value, width and type.
    f: fields op/ort/orty/orbits/orbytes; val = integer value of the bytes.  -> list of (class, text)"""
    pre = PREFIX.get(ty)
    op = f.get("op")
    if op is None or es in (None, "!err"):
        return []
    if op == "hex:":
        op = ""
    if pre is not None:
        want = es[len(pre):] if es.startswith(pre) else es
        if op != want:
            return [("omit-prefix", "%s: ExportString(OmitPrefix) = %r, expected %r (full text %s)" % (what, op, want, es))]
    if f.get("ort") != "ok":
        return [("omit-prefix", "%s: ExportString(OmitPrefix) = %r; prefix + it does not import (full text %s)" % (what, op, es))]
    same_val = le_val(f.get("orbytes", "-")) == val
    if ty == "signed" and sext64 is not None and f.get("orty") == ty and f.get("orbits") == "64" and str(bits) != "64" \
            and le_val(f.get("orbytes", "-")) == sext64:
        return []       # the width loss of narrow signed texts is reported by the plain round trip (K_SIGNED_W)
    if f.get("orty") != ty or not same_val:
        return [("omit-prefix", "%s: ExportString(OmitPrefix) = %r; prefix + it imports as ty=%s bytes=%s (full text %s)"
                 % (what, op, f.get("orty"), f.get("orbytes"), es))]
    if f.get("orbits") != str(bits):
        if ty == "unsigned" and str(bits) != "64" and f.get("orbits") == "64":
            return []   # the width loss of unsigned texts is reported by the plain round trip (K_UNSIGNED)
        return [("omit-prefix", "%s: prefix + %r imports with bits %s, expected %s" % (what, op, f.get("orbits"), bits))]
    return []


def eval_case(f, inp_hex):
    """property evaluated on one implementation C line (dict f). -> list of (class, text)"""
    fails = []
    if f.get("imp") != "ok":
        return fails
    ty, bits, by = f.get("ty"), f.get("bits"), f.get("bytes")
    inp = show(inp_hex)
    # sized notations give exactly the stated width
    m = re.match(r"^0[udbx]<0*([0-9]+)>", inp)
    if m and str(int(m.group(1))) != bits:
        fails.append(("width-stated", "notation states %s bits, value has %s" % (m.group(1), bits)))
    # binary exports
    try:
        b = int(bits)
    except (TypeError, ValueError):
        b = -1
    vb = f.get("vb", "")
    if "'b" in vb:
        pre, dig = vb.split("'b", 1)
        if pre != bits or len(dig) != b:
            fails.append(("width-verilog", "ExportVerilogBinary %s has %d digits for %s bits" % (vb, len(dig), bits)))
    else:
        fails.append(("width-verilog", "ExportVerilogBinary=%s" % vb))
    eb = f.get("eb", "")
    for item in f.get("nb", "").split(";"):
        if ":" not in item:
            continue
        k, r = item.split(":", 1)
        if r == "!err":
            if len(eb) <= int(k):
                fails.append(("width-nbits", "ExportBinaryNBits(%s) fails though the value needs %d bits" % (k, len(eb))))
        elif len(r) != int(k) or int(r, 2) != le_val(by):
            fails.append(("width-nbits", "ExportBinaryNBits(%s)=%s" % (k, r)))
    # round trip
    es = f.get("es")
    if es == "!err":
        fails.append((K_SIGNED if ty == "signed" else "export-error", "ExportString fails for a %s value" % ty))
    elif f.get("rt") != "ok":
        fails.append(("reimport-error", "ImportString(%s) fails" % es))
    else:
        same_val = le_val(f.get("rbytes", "-")) == le_val(by)
        if f.get("rty") != ty or not same_val or f.get("rbits") != bits:
            if ty == "unsigned" and f.get("rty") == ty and same_val and bits != "64" and f.get("rbits") == "64":
                fails.append((K_UNSIGNED, "%s -> ExportString %s -> bits %s" % (inp, es, f.get("rbits"))))
            else:
                fails.append(("roundtrip", "%s -> %s -> ty=%s bits=%s bytes=%s" % (inp, es, f.get("rty"), f.get("rbits"), f.get("rbytes"))))
    fails += omit_eval(f, ty, bits, le_val(by), es, inp)
    return fails


def compare_nums(impl, model):
    """-> stats, property failures [(class, text, hex, line)], mismatches [(hex, impl, model)]"""
    il = [l for l in impl.splitlines() if l.startswith("C ")]
    ml = {}
    for l in model.splitlines():
        fs = l.split(" ", 2)
        if fs[0] in ("C", "CF", "U") and len(fs) >= 2:
            ml.setdefault(fs[1], []).append(l if fs[0] != "CF" else "C" + l[2:])
    st = {"literals": len(il), "imported": 0, "rejected": 0, "unmodelled": 0, "by_type": {}, "by_bits": {},
          "nbits_evals": 0, "roundtrips_ok": 0, "distinct": set()}
    fails, mism = [], []
    for l in il:
        fs = l.split()
        h = fs[1]
        f = kvs(fs[2:])
        if l.find("panic") >= 0:
            fails.append(("panic", l[:300], h, l))
            continue
        if f.get("imp") == "ok":
            st["imported"] += 1
            st["by_type"][f["ty"]] = st["by_type"].get(f["ty"], 0) + 1
            st["by_bits"][f["bits"]] = st["by_bits"].get(f["bits"], 0) + 1
            st["nbits_evals"] += f.get("nb", "").count(":")
            st["distinct"].add((f["ty"], f["bits"], f["bytes"]))
        else:
            st["rejected"] += 1
        fl = eval_case(f, h)
        if f.get("imp") == "ok" and not [x for x in fl if x[0] in ("roundtrip", "reimport-error", "export-error", K_SIGNED, K_UNSIGNED)]:
            st["roundtrips_ok"] += 1
        for c, t in fl:
            fails.append((c, t, h, l))
        cands = ml.get(h)
        if cands is None:
            mism.append((h, l, "<no model line>"))
        elif cands[0].startswith("U "):
            st["unmodelled"] += 1
        elif l not in cands:
            mism.append((h, l, cands[0]))
    return st, fails, mism


def lq_adjacent(bits, v, r):
    """quantiser bands (two's complement in `bits`): r is the band next to v towards zero"""
    sv = v - (1 << bits) if v >> (bits - 1) else v
    sr = r - (1 << bits) if r >> (bits - 1) else r
    return abs(sv) - abs(sr) == 1 and (sv >= 0) == (sr >= 0 or sr == 0)


def compare_uints(impl, model):
    """VC lines: values built by ImportUint (all Go widths, any optionalBits incl. the -1 / 0 sentinels),
    by the simulator's show path `V show` = ImportUint(value, t.GetSize()) + CastType(t), and by
    ImportBytes (+CastType).  The property is evaluated on the implementation line against the *input*
    of the case (not against what the importer produced): type and width are the expected ones, bytes,
    ExportUint64 and every exporter (ExportString of the type, ExportBinary(false/true),
    ExportBinaryNBits(bits), ExportVerilogBinary) denote the given value at the given width, and every
    text that is a literal (ExportString, ExportBinary(true), ShowPrefix+OmitPrefix text) re-imports to
    the same value, width and type.
    -> stats, failures [(class, text, case, line)], mismatches [(case, impl, model)]"""
    il = [l for l in impl.splitlines() if l.startswith("VC ")]
    ml = [l for l in model.splitlines() if l.startswith(("VC ", "VU "))]
    st = {"cases": len(il), "by_entry": {}, "ge_2_32": 0, "byte_distinct": 0, "roundtrips_ok": 0, "cast_refused": 0,
          "optional_bits": {"positive": 0, "zero": 0, "negative": 0}, "distinct": set()}
    fails, mism = [], []
    if model and len(il) != len(ml):
        mism.append(("-", "%d lines" % len(il), "%d lines" % len(ml)))
    for i, l in enumerate(il):
        fs = l.split()
        case = "V " + " ".join(fs[1:5])
        f = kvs(fs[5:])
        if model and i < len(ml) and not ml[i].startswith("VU ") and ml[i] != l:
            mism.append((case, l, ml[i]))
        textual = True          # the type's text form is known to the driver (integer-like types)
        if fs[1] == "uint":
            w, v, ob = int(fs[2]), int(fs[3]), int(fs[4])
            bits, ty, entry = (ob if ob > 0 else w), "unsigned", "ImportUint(uint%d)" % w
            if ob > 0:
                v %= 1 << ob        # the number holds exactly `ob` bits
            st["optional_bits"]["positive" if ob > 0 else "zero" if ob == 0 else "negative"] += 1
        elif fs[1] == "show":
            w, v, ty = int(fs[2]), int(fs[3]), fs[4]
            size = int(f.get("size", "0"))
            entry = "show:" + re.sub(r"[0-9]+", "N", ty)
            st["optional_bits"]["positive" if size > 0 else "zero" if size == 0 else "negative"] += 1
            if "imp=cast-err" in l:
                if size in (-1, w):
                    fails.append(("import-entry-error", "CastType refuses a %d-bit value for %s (size %d)" % (w, ty, size), case, l))
                else:
                    st["cast_refused"] += 1
                continue
            bits = size if size > 0 else w
            if size > 0:
                v %= 1 << size      # a register wider than the type shows its low `size` bits
            textual = ty in PREFIX
        else:
            bits, v, ty, entry = int(fs[2]), int.from_bytes(unhex(fs[3]), "big"), fs[4], "ImportBytes+" + fs[4]
        if "panic" in l or "imp=err" in l or "bad-case" in l or "imp=no-type" in l:
            fails.append(("import-entry-error", l[:300], case, l))
            continue
        st["by_entry"][entry] = st["by_entry"].get(entry, 0) + 1
        if v >= 1 << 32:
            st["ge_2_32"] += 1
        if len(set(v.to_bytes(16, "little")[:8])) == 8:
            st["byte_distinct"] += 1
        st["distinct"].add((entry, v, bits))
        bad = []
        if f.get("ty") != ty or f.get("bits") != str(bits):
            bad.append("type/bits %s/%s, expected %s/%d" % (f.get("ty"), f.get("bits"), ty, bits))
        if le_val(f.get("bytes", "-")) != v:
            bad.append("bytes %s denote %d, expected %d" % (f.get("bytes"), le_val(f.get("bytes", "-")), v))
        if fs[1] in ("uint", "show") and len(unhex(f.get("bytes", "-"))) != (bits + 7) // 8:
            bad.append("%d byte(s) for a %d-bit number" % (len(unhex(f.get("bytes", "-"))), bits))
        if f.get("u64") != "!err" and f.get("u64") != str(v):
            bad.append("ExportUint64 = %s, expected %d" % (f.get("u64"), v))
        if f.get("u64") == "!err" and v < 1 << 64 and len(unhex(f.get("bytes", "-"))) <= 8:
            bad.append("ExportUint64 fails")
        try:
            if int(f.get("eb", "x"), 2) != v:
                bad.append("ExportBinary = %s, expected %s" % (f.get("eb"), bin(v)[2:]))
        except ValueError:
            bad.append("ExportBinary = %s" % f.get("eb"))
        if f.get("ebs") != "0b<%d>%s" % (bits, bin(v)[2:]):
            bad.append("ExportBinary(true) = %s, expected 0b<%d>%s" % (f.get("ebs"), bits, bin(v)[2:]))
        if v < 1 << bits:
            digits = bin(v)[2:].rjust(bits, "0")
            if f.get("vb") != "%d'b%s" % (bits, digits):
                bad.append("ExportVerilogBinary = %s, expected %d'b%s" % (f.get("vb"), bits, digits))
            if 1 <= bits <= 4096 and f.get("nb") != "%d:%s" % (bits, digits):
                bad.append("ExportBinaryNBits(%d) = %s" % (bits, f.get("nb")))
            if f.get("brt") != "ok:bin:%d:%s" % (bits, f.get("brt", "").rsplit(":", 1)[-1]) or \
                    le_val(f.get("brt", "::-").rsplit(":", 1)[-1] if f.get("brt", "").startswith("ok:") else "-") != v:
                bad.append("ImportString(ExportBinary(true) = %s) -> %s, expected bin, %d bits, same value" % (f.get("ebs"), f.get("brt"), bits))
        es = f.get("es", "")
        if textual:
            sv = v - (1 << bits) if (1 <= bits <= 64 and v >> (bits - 1)) else v
            want = {"unsigned": str(v), "hex": "0x<%d>%x" % (bits, v), "bin": "0b<%d>%s" % (bits, bin(v)[2:]), "signed": "0s%d" % sv}[ty]
            if es != want:
                bad.append("ExportString = %s, expected %s" % (es, want))
        elif es == "!err":
            bad.append("ExportString fails for a %s value" % ty)
        if bad:
            cls = "import-entry-value"
            if len(bad) == 1 and bad[0].startswith("ExportString = !err") and ty == "signed" and bits != 64:
                cls = "signed-narrow-export"      # Signed.ExportString refuses values that are not 8 bytes long
            elif all("byte(s) for a" in b or b.startswith("ExportUint64 fails") for b in bad):
                cls = "import-entry-width"        # ImportUint leaves a byte slice that does not match the width
            fails.append((cls, "%s: %s" % (entry, "; ".join(bad)), case, l))
            continue
        is_lq = ty.startswith("lqs")
        sext64 = None
        if ty == "signed" and 1 <= bits <= 64:
            sext64 = (v - (1 << bits) if v >> (bits - 1) else v) % (1 << 64)
        if f.get("rt") != "ok":
            fails.append(("reimport-error", "%s: ImportString(%s) fails" % (case, es), case, l))
        elif ty == "signed" and bits != 64 and f.get("rty") == ty and f.get("rbits") == "64" and le_val(f.get("rbytes", "-")) == sext64:
            fails.append((K_SIGNED_W, "%s -> ExportString %s -> bits 64" % (case, es), case, l))
        elif f.get("rty") != ty or le_val(f.get("rbytes", "-")) != v:
            if is_lq and f.get("rty") == ty and f.get("rbits") == str(bits) and lq_adjacent(bits, v, le_val(f.get("rbytes", "-"))):
                fails.append((K_LQ, "%s -> %s -> bytes=%s" % (case, es, f.get("rbytes")), case, l))
            else:
                fails.append(("roundtrip", "%s -> %s -> ty=%s bytes=%s" % (case, es, f.get("rty"), f.get("rbytes")), case, l))
        elif f.get("rbits") != str(bits):
            if ty == "unsigned" and bits != 64 and f.get("rbits") == "64":
                fails.append((K_UNSIGNED, "%s -> ExportString %s -> bits 64" % (case, es), case, l))
            else:
                fails.append(("roundtrip", "%s -> %s -> bits %s" % (case, es, f.get("rbits")), case, l))
        else:
            st["roundtrips_ok"] += 1
        for c, t in omit_eval(f, ty, bits, v, es, case, sext64):
            if is_lq and f.get("ort") == "ok" and f.get("orty") == ty and f.get("orbits") == str(bits) and \
                    lq_adjacent(bits, v, le_val(f.get("orbytes", "-"))):
                c = K_LQ
            fails.append((c, t, case, l))
    return st, fails, mism


def eval_floats(text):
    """F lines -> stats, failures [(class, text, family, literal)]"""
    st = {"cases": 0, "by_family": {}, "rt_ok": 0, "import_rejected": 0, "distinct": set()}
    fails = []
    for l in text.splitlines():
        fs = l.split()
        if len(fs) < 4 or fs[0] != "F":
            continue
        fam, lit, verdict = fs[1], fs[2], fs[3]
        st["cases"] += 1
        fm = st["by_family"].setdefault(fam, {"ok": 0, "fail": 0, "rejected": 0})
        f = kvs(fs[4:])
        if "w-FAIL" in fs:
            fails.append(("width-verilog", l[:300], fam, lit))
        if verdict == "rt-ok":
            st["rt_ok"] += 1
            fm["ok"] += 1
            st["distinct"].add((f.get("ty"), f.get("bytes")))
            if "op" in f:
                st["omit_prefix_evals"] = st.get("omit_prefix_evals", 0) + 1
                okk = f.get("ort") == "ok" and f.get("orty") == f.get("ty") and f.get("orbits") == f.get("bits") \
                    and f.get("orbytes") == f.get("bytes")
                if not okk:
                    cls = "omit-prefix"
                    try:   # the quantiser's band truncation shows through this path as well
                        if fam == "lqs" and f.get("ort") == "ok" and f.get("orty") == f.get("ty") and f.get("orbits") == f.get("bits"):
                            b = int(f["bits"])
                            v, r = le_val(f["bytes"]), le_val(f["orbytes"])
                            sv = v - (1 << b) if v >> (b - 1) else v
                            sr = r - (1 << b) if r >> (b - 1) else r
                            if abs(sv) - abs(sr) == 1:
                                cls = K_LQ
                    except (ValueError, KeyError):
                        pass
                    fails.append((cls, "%s %s: ExportString(OmitPrefix) = %r (full text %s); prefix + it imports as %s" % (
                        fam, lit, f.get("op"), f.get("es"),
                        "ty=%s bits=%s bytes=%s" % (f.get("orty"), f.get("orbits"), f.get("orbytes")) if f.get("ort") == "ok" else f.get("ort")),
                        fam, lit))
        elif verdict.startswith("imp-"):
            st["import_rejected"] += 1
            fm["rejected"] += 1
            if verdict == "imp-panic":
                fails.append(("panic", l[:300], fam, lit))
        else:
            fm["fail"] += 1
            cls = "roundtrip-" + fam
            try:
                v, r = le_val(f.get("bytes", "-")), le_val(f.get("rbytes", "-"))
                same_t = f.get("rty") == f.get("ty") and f.get("rbits") == f.get("bits")
                if fam == "float32" and same_t and ((v >> 23) & 0xff) < 90 and re.match(r"^0f<32>-?[0-9]+\.[0-9]{20}$", f.get("es", "")):
                    cls = K_FLOAT32
                if fam == "lqs" and same_t and "rbytes" in f:
                    b = int(f["bits"])
                    sv = v - (1 << b) if v >> (b - 1) else v
                    sr = r - (1 << b) if r >> (b - 1) else r
                    if abs(sv) - abs(sr) == 1 and (sv >= 0) == (sr >= 0 or sr == 0):
                        cls = K_LQ
            except (ValueError, TypeError):
                pass
            fails.append((cls, l[:400], fam, lit))
    return st, fails


# ------------------------------------------------------------------ corpus

def corpus(kind):
    d = os.path.join(vlib.CORPUS, PROP)
    if not os.path.isdir(d):
        return []
    return sorted(os.path.join(d, f) for f in os.listdir(d) if f.startswith(kind) and f.endswith(".txt"))


# ------------------------------------------------------------------ main

def report_classes(rep, fails, known_ids, mk_replay):
    """fails: [(class, text, ...)] — one KNOWN-FINDING or VIOLATION per class, smallest example first"""
    by = {}
    for x in fails:
        by.setdefault(x[0], []).append(x)
    for cls in sorted(by):
        xs = sorted(by[cls], key=lambda x: (len(x[1]), x[1]))
        if cls in known_ids:
            if any(k.startswith(cls + ":") for k in rep.known_hits):
                continue    # one line per listed finding, whichever generator met it first
            rep.known("%s: %s (%d cases this run, e.g. %s)" % (cls, K_TEXT.get(cls, cls), len(xs), xs[0][1][:160]))
        else:
            rep.violation(mk_replay(cls, xs[0], len(xs)))


def known_ids():
    return {f.get("id") for f in vlib.load_known_findings(PROP)}


def run(rep):
    thorough = rep.tier == "thorough"
    hbin = vlib.go_build("c08")
    known = known_ids()
    broken = []
    found_input = False

    # 1. regenerate the matcher table
    rows, table, terr = regenerate(hbin)
    rep.coverage["matcher_table"] = [r[0] for r in rows]
    rep.coverage["matcher_table_dump"] = (table.splitlines() or [""])[0]
    if terr:
        broken.append("translator: " + terr)

    # 2. oracle, decision procedure on the regenerated table, witness replay
    ok, log = vlib.lake_build([EXE])
    oracle_ok = ok and os.path.exists(_oracle()) and not terr
    if not ok:
        broken.append("lake build oracle-c08 failed: " + " | ".join(l for l in log.splitlines() if "error" in l.lower())[:600])
    pairs_bad = []
    if oracle_ok:
        for l in oracle(args=["pairs"]).splitlines():
            fs = l.split()
            if fs and fs[0] == "P":
                w = [int(x) for x in fs[5:]] if fs[3] == "overlap" else None
                pairs_bad.append((int(fs[1]), int(fs[2]), fs[3], w))
            elif fs and fs[0] == "OLD":
                rep.coverage["historic_pair_verdict"] = " ".join(fs[3:])
        for i, j, v, w in pairs_bad:
            if v == "overlap":
                s = "".join(chr(c) if c < 0x110000 and not 0xD800 <= c <= 0xDFFF else "�" for c in w)
                if ambiguity_violation(rep, hbin, hexs(s), rows, "decision procedure (BMV.Regex.verdict) on matchers %d and %d" % (i, j)):
                    found_input = True
                else:
                    broken.append("decision procedure reports overlap of matchers %d,%d on %r but Go accepts it with fewer than two" % (i, j, s))
            else:
                broken.append("decision procedure undecided (fuel) for matchers %d,%d" % (i, j))

    # 3. kernel-check the theorems over the regenerated table
    pr = vlib.prove(PROP, MODULES, exes=[EXE], leanchecker=thorough)
    rep.add_proof(pr, "lake build BMV.Props.C08 (decide +kernel over the regenerated BMV/Gen/Matchers.lean) && "
                  "lake env lean <#audit_module BMV.Props.C08>" + (" && lake env leanchecker BMV.Props.C08" if thorough else ""),
                  ["tools/regex2lean.py (Go regex syntax -> BMV.Regex term; rejects anything outside its subset)",
                   "regexp (Go stdlib) implements the regular language of the translated syntax: `.` excludes \\n, negated classes "
                   "include it, `$` = end of text, invalid UTF-8 bytes read as U+FFFD (checked by correspondence only)",
                   "BMV.Numbers is a hand-written value-level model of type_unsigned/signed/bin/hex.go and export.go; tied by correspondence only",
                   "strconv.ParseUint/ParseInt/Atoi/FormatUint/Itoa and encoding/hex behave as the decimal/hex digit functions of the model",
                   "float16/32, fixed point, FXP, linear quantiser: no Lean theorem; strconv.ParseFloat/FormatFloat and float64 arithmetic "
                   "are exercised, not modelled (FloPoCo needs the external fp2bin/bin2fp tools: only its matcher is covered)"])
    if terr:
        pr["ok"] = False
    broken += pr["broken"]
    rep.assumptions += [
        "a string with invalid UTF-8 is judged through its rune sequence (each bad byte = U+FFFD), as regexp does",
        "ImportString is modelled as 'the unique matcher that accepts' (sound because matchers_disjoint holds on this run's table)",
        "round-trip equality is (value, bits, type); the byte slice of a 0x<n> literal is n bytes long in the implementation "
        "(modelled as such, not judged)",
        "round trip theorems: unsigned (64 bit), bin, hex proved in Lean; signed proved for the proposed repair "
        "(repo_patches/C08-signed-export.diff); float16/32, fixed point, FXP, linear quantiser ASSUMED (searched on the Go side only); "
        "FloPoCo not evaluated (external tools absent)",
        "integer-like values are those reachable through ImportString; float-like values are also built from raw bit patterns "
        "(ImportBytes+CastType) for every fixed-point format s=1..32, f=0..s; NaN payloads other than the canonical NaN and "
        "fixed-point formats with f >= 63 are outside",
    ]

    # 4. correspondence + property evaluation on the implementation
    seedinfo = {"VERIF_SEED": rep.seed}
    rst = {"strings": 0, "accepted_by_one": 0, "accepted_by_none": 0, "per_matcher": [0] * len(rows), "non_ascii": 0,
           "with_newline": 0}
    rdistinct, ndistinct = set(), set()
    nst_all, fst = None, None
    samples = []
    amb_all, rmism, nmism, nfails, ffails = [], [], [], [], []

    def absorb_r(st):
        for k in ("strings", "accepted_by_one", "accepted_by_none", "non_ascii", "with_newline"):
            rst[k] += st[k]
        for i, v in enumerate(st["per_matcher"]):
            if i < len(rst["per_matcher"]):
                rst["per_matcher"][i] += v
        rdistinct.update(st["distinct"])

    # regex strings: corpus, then generated.  The Go masks alone already give the direct ambiguity search.
    texts = [harness(hbin, ["check", f]) for f in corpus("regex")]
    texts.append(harness(hbin, ["regex", str(60000 if thorough else 6000)]))
    for t in texts:
        model = oracle(t) if oracle_ok else "\n".join(l for l in t.splitlines() if l.startswith("R "))
        st, amb, mism = compare_regex(t, model, rows)
        absorb_r(st)
        amb_all += amb
        rmism += mism
    for h, idx in sorted(set((h, tuple(i)) for h, i in amb_all), key=lambda x: (len(x[0]), x[0]))[:3]:
        if ambiguity_violation(rep, hbin, h, rows, "generated strings (Go-side search)"):
            found_input = True
    if rmism:
        broken.append("correspondence Regex.matchStr vs regexp.MatchString: %d disagreements, first on %r impl=%s model=%s"
                      % (len(rmism), show(rmism[0][0]), rmism[0][1], rmism[0][2]))

    # numbers
    ntexts = [harness(hbin, ["numfile", f]) for f in corpus("nums")]
    ntexts.append(harness(hbin, ["nums", str(40000 if thorough else 4000)]))
    for t in ntexts:
        model = oracle(t) if oracle_ok else ""
        st, fails, mism = compare_nums(t, model)
        ndistinct.update(st["distinct"])
        if nst_all is None:
            nst_all = st
        else:
            for k in ("literals", "imported", "rejected", "unmodelled", "nbits_evals", "roundtrips_ok"):
                nst_all[k] += st[k]
            for k in ("by_type", "by_bits"):
                for a, b in st[k].items():
                    nst_all[k][a] = nst_all[k].get(a, 0) + b
        nfails += fails
        if oracle_ok:
            nmism += mism
        for l in [x for x in t.splitlines() if x.startswith("C ") and "imp=ok" in x][:2]:
            samples.append({"literal": show(l.split()[1]), "implementation": l[:260]})
    if nmism:
        broken.append("correspondence BMV.Numbers vs bmnumbers: %d disagreements, first on %r impl=%s model=%s"
                      % (len(nmism), show(nmism[0][0]), nmism[0][1][:300], nmism[0][2][:300]))

    # the other import entry points: ImportUint (4 widths), ImportBytes (+CastType), ExportUint64
    utexts = [harness(hbin, ["uintfile", f]) for f in corpus("uints")]
    utexts.append(harness(hbin, ["uints", str(4000 if thorough else 300)]))
    ust = {"cases": 0, "by_entry": {}, "ge_2_32": 0, "byte_distinct": 0, "roundtrips_ok": 0, "cast_refused": 0,
           "optional_bits": {"positive": 0, "zero": 0, "negative": 0}}
    udistinct, ufails, umism = set(), [], []
    for t in utexts:
        model = oracle(t) if oracle_ok else ""
        st, fails, mism = compare_uints(t, model)
        for k in ("cases", "ge_2_32", "byte_distinct", "roundtrips_ok", "cast_refused"):
            ust[k] += st[k]
        for k in ust["optional_bits"]:
            ust["optional_bits"][k] += st["optional_bits"][k]
        for a, b in st["by_entry"].items():
            ust["by_entry"][a] = ust["by_entry"].get(a, 0) + b
        udistinct.update(st["distinct"])
        ufails += fails
        umism += mism
    for l in [x for x in utexts[-1].splitlines() if x.startswith("VC uint 64 ")][2:3]:
        samples.append({"import_uint_case": l[:260]})
    if umism:
        broken.append("correspondence BMV.Numbers.importUint/importBytes vs bmnumbers: %d disagreements, first on %r impl=%s model=%s"
                      % (len(umism), umism[0][0], umism[0][1][:300], umism[0][2][:300]))

    # float-like types: direct search on the implementation
    ftext = "".join(harness(hbin, ["floatfile", f]) for f in corpus("floats"))
    ftext += harness(hbin, ["floats", str(60000 if thorough else 6000)])
    fst, ffails = eval_floats(ftext)
    for l in [x for x in ftext.splitlines() if " rt-ok " in x][:2]:
        samples.append({"float_case": l[:200]})

    def mk_num(cls, x, n):
        # (the seed-dependent ExportBinaryNBits widths and the per-run count stay out of the replay file)
        return {"property": PROP, "kind": cls, "input": show(x[2]), "input_hex": x[2], "what": x[1],
                "implementation_line": re.sub(r" nb=\S*", "", x[3])[:600], "mode": "nums"}

    def mk_float(cls, x, n):
        f = kvs(x[1].split())
        return {"property": PROP, "kind": cls, "family": x[2], "input": x[3], "what": x[1], "mode": "floats",
                "value": "type %s, %s bits, bytes(LE) %s" % (f.get("ty"), f.get("bits"), f.get("bytes")),
                "exported_literal": f.get("es"), "reimported_bytes": f.get("rbytes", f.get("reimport")),
                "note": "input pat:<type>:<bits>:<hex> = the value built from that bit pattern (ImportBytes+CastType)"
                        if x[3].startswith("pat:") else "input is the literal first imported"}

    def mk_uint(cls, x, n):
        return {"property": PROP, "kind": cls, "input": x[2], "what": x[1], "implementation_line": x[3][:600], "mode": "uints"}

    nv = len(rep.violations)
    report_classes(rep, nfails, known, mk_num)
    # (the width loss of a non-64-bit unsigned value is one finding, whichever entry point built the value)
    report_classes(rep, [x for x in ufails if not (x[0] == K_UNSIGNED and any(y[0] == K_UNSIGNED for y in nfails))], known, mk_uint)
    report_classes(rep, ffails, known, mk_float)
    if len(rep.violations) > nv:
        found_input = True

    nst_all = nst_all or {}
    nst_all.pop("distinct", None)
    fst.pop("distinct_set", None)
    fdistinct = len(fst.pop("distinct"))
    by_bits = nst_all.get("by_bits", {})
    buckets = {}
    for k, v in by_bits.items():
        try:
            w = int(k)
        except ValueError:
            w = -1
        b = "64" if w == 64 else ">64" if w > 64 else "%d-%d" % ((w - 1) // 8 * 8 + 1, min((w - 1) // 8 * 8 + 8, 63)) if w > 0 else "?"
        buckets[b] = buckets.get(b, 0) + v
    nst_all["by_bits"] = buckets
    rep.coverage.update({
        "evaluations": rst["strings"] * max(1, len(rows)) + nst_all.get("literals", 0) + fst["cases"] + ust["cases"],
        "distinct_nontrivial": len(rdistinct) + len(ndistinct) + fdistinct + len(udistinct),
        "rule": "regex: strings generated from each matcher's regexp/syntax tree (seeded), 0-3 mutations (delete/insert/replace/"
                "newline/invalid UTF-8/non-ASCII digits/'.0' suffix), fixed near-misses; every string is judged by all matchers on "
                "both sides. numbers: grid over widths 1..64 x {0,1,2^w-1,2^w} for 0u<>/0d<>/0b<>/0x<>, boundary decimals around "
                "2^k, 2^63, 2^64, random structured literals, malformed stream. non-trivial = accepted by exactly one matcher / "
                "imported successfully; distinct = distinct strings / distinct (type,bits,bytes) values. floats: import entry points: ImportUint with uint8/16/32/64 (and optionalBits), ImportBytes "
                "(+CastType hex/bin) on byte-distinct words (0x0102030405060708 ...), 2^k for every k, 2^(8j)+-1, single-byte and "
                "all-but-one-byte masks, random words; judged against the case's input value, not the importer's output. floats: literal-first "
                "(specials, denormals, random) and pattern-first (pat:<type>:<bits>:<hex>: fps/fxps at every s=1..32 x f=0..s with "
                "all-ones/alternating/2^k+-1/random full-width patterns, raw float16/float32 patterns, quantiser bands)",
        "samples": samples[:6],
        "traces_validated_against_impl": rst["strings"] + nst_all.get("literals", 0),
        "input_distribution": {"seed": seedinfo, "regex_strings": rst, "numbers": nst_all, "floats": fst, "import_entry_points": ust,
                               "widths_covered_1_64": sum(1 for w in range(1, 65) if str(w) in by_bits)},
        "pairs_checked": len(rows) * (len(rows) - 1) // 2,
        "pairs_not_disjoint": [[i, j, v] for i, j, v, _ in pairs_bad],
        "unmodelled": ["float16/float32/fixed point/FXP/linear quantiser import+export (Go-side search only)",
                       "FloPoCo import/export (external fp2bin/bin2fp)",
                       "cmd/bmnumbers flags other than -omit-prefix (-show, -with-size, -cast, -convert: CLI presentation, not the library's export config)",
                       "LoadLinearDataRangesFromFile (the harness sets the ranges map directly)", "serve.go HTTP front end",
                       "CastType to sized (float/dynamic) types is used by the pattern-first search but not modelled",
                       "negative widths of ExportBinaryNBits"],
    })

    # 5. outcome for broken obligations without a concrete input
    if broken and not found_input:
        rep.violation({"property": PROP, "kind": "proof-or-correspondence-broken", "broken": broken,
                       "searched": "%d generated strings judged by all %d Go matchers: none accepted by two; %d literals round-tripped on the "
                                   "implementation" % (rst["strings"], len(rows), nst_all.get("literals", 0))},
                      no_failing_input=True)
    elif broken:
        rep.notes.append("also broken (explained by the concrete violation above): " + "; ".join(broken)[:1500])


def replay(rep, path):
    hbin = vlib.go_build("c08")
    obj = json.load(open(path))
    kind = obj.get("kind", "")
    rows, table, terr = regenerate(hbin)
    known = known_ids()
    d = vlib.scratch_dir("c08")
    rep.coverage.update({"evaluations": 1, "distinct_nontrivial": 1, "rule": "replay of " + path, "samples": [obj.get("input", "")]})
    if kind == "ambiguous-literal":
        if not ambiguity_violation(rep, hbin, obj["input_hex"], rows, "replay"):
            rep.notes.append("input is no longer accepted by two matchers")
    elif obj.get("mode") == "nums":
        f = os.path.join(d, "replay-nums.txt")
        open(f, "w").write(obj["input_hex"] + "\n")
        t = harness(hbin, ["numfile", f])
        _, fails, _ = compare_nums(t, "")
        report_classes(rep, [x for x in fails if x[0] == kind], known, lambda c, x, n: dict(obj, what=x[1], implementation_line=x[3][:600]))
    elif obj.get("mode") == "uints":
        f = os.path.join(d, "replay-uints.txt")
        open(f, "w").write(obj["input"] + "\n")
        _, fails, _ = compare_uints(harness(hbin, ["uintfile", f]), "")
        report_classes(rep, [x for x in fails if x[0] == kind], known, lambda c, x, n: dict(obj, what=x[1], implementation_line=x[3][:600]))
    elif obj.get("mode") == "floats":
        f = os.path.join(d, "replay-floats.txt")
        open(f, "w").write("%s %s\n" % (obj["family"], hexs(obj["input"] if not obj["input"].startswith("hex:") else bytes.fromhex(obj["input"][4:]))))
        _, fails = eval_floats(harness(hbin, ["floatfile", f]))
        report_classes(rep, [x for x in fails if x[0] == kind], known, lambda c, x, n: dict(obj, what=x[1]))
    else:
        # a broken obligation: re-run the whole check
        run(rep)
