"""C01 — generated processor HDL executes programs exactly as the ISA simulator does.

proof:   lean/BMV/Props/C01.lean: decode_agree (HDL part-selects = Go string slices), rtl_refines_isa
         (lock-step refinement for every one-clock opcode of the co-implemented set), trace_eq,
         onlyDestRegs_sound — about the models BMV.Isa (Go simulator) and BMV.Rtl (emitted HDL).
ties:    (a) BMV.Isa vs the real procbuilder.VM, state after every VM.Step;
         (b) BMV.Rtl vs the Verilog text emitted by the real generators (Arch/Conproc/Rom
             Write_verilog), parsed by bmvh/vlog and executed by BMV.Vlog, every register every clock,
             also with the OnlyDestRegs optimisation (register sets recorded through the opcodes' own
             HLAssemblerNormalize, compared with the model's destRegs);
search:  (c) the emitted HDL under BMV.Vlog against the real Go VM directly, instruction by
             instruction, on programs of one-clock opcodes (pc, registers, output values).
"""
import json
import os
import vlib

LEVEL = "proof"
PROP = "C01"
MODULES = ["BMV.Props.C01"]
EXE = "oracle-c01"
HANDSHAKE = {"i2rw", "r2owa"}


def _oracle():
    return os.path.join(vlib.LEAN, ".lake", "build", "bin", EXE)


def machines(text):
    """split a stream into machines: dict(arch, src[], lines[]) — lines are everything after A"""
    ms = []
    cur = None
    for l in text.splitlines():
        if l.startswith("A "):
            cur = {"arch": l, "src": [], "lines": []}
            ms.append(cur)
        elif cur is not None:
            if l.startswith("S "):
                cur["src"].append(l[2:])
            cur["lines"].append(l)
    return ms


def arch_key(x):
    f = x.split()
    return (f[1], f[2])


def field(line, key):
    for f in line.split()[1:]:
        if f.startswith(key + "="):
            return f[len(key) + 1:]
    return None


def core(line):
    """pc / registers / output values of an X, Y or Z line"""
    return (field(line, "pc"), field(line, "r"), field(line, "o"))


def compare(impl, model, hdl):
    mi, mm = machines(impl), machines(model)
    st = {"ran_off_end": 0, "machines": len(mi), "steps": 0, "sim_steps_compared": 0, "hdl_cycles_compared": 0, "retire_compared": 0,
          "hdl_ok": 0, "hdl_rejected": 0, "pruned_machines": 0, "failed_runs": 0, "ops": {}, "rsize": {}, "distinct": set(),
          "handshake_machines": 0, "hdl_only_clocks": 0}
    fails = []
    if len(mi) != len(mm):
        return st, [{"kind": "oracle-desync", "arch": "", "detail": "%d vs %d machines" % (len(mi), len(mm))}]
    for a, b in zip(mi, mm):
        ops = set(x.split()[0] for x in a["src"])
        for o in ops:
            st["ops"][o] = st["ops"].get(o, 0) + 1
        rs = a["arch"].split()[1]
        st["rsize"][rs] = st["rsize"].get(rs, 0) + 1
        handshake = bool(ops & HANDSHAKE)
        if handshake:
            st["handshake_machines"] += 1
        hline = next((x for x in b["lines"] if x.startswith("H ")), None)
        oline = next((x for x in b["lines"] if x.startswith("O ")), None)
        base = {"arch": a["arch"], "src": a["src"], "opt": oline is not None}
        if hdl:
            if hline == "H ok":
                st["hdl_ok"] += 1
            else:
                st["hdl_rejected"] += 1
                fails.append(dict(base, kind="hdl-not-accepted", detail=(hline or "no H line")[:400], stim=[]))
                continue
            hi = next((x for x in b["lines"] if x.startswith("HI ")), None)
            if hi is not None:
                # the emitted design was read but cannot be initialised / reset (e.g. a case statement without items)
                fails.append(dict(base, kind="hdl-not-accepted", detail=hi[:400], stim=[]))
                continue
            if oline is not None:
                if not oline.startswith("O ok"):
                    fails.append(dict(base, kind="destregs-differ", detail=oline[:400], stim=[]))
                if "pruned" in oline:
                    st["pruned_machines"] += 1
        # walk the steps
        xi = [x for x in a["lines"] if x.startswith("V ") or x.startswith("X ")]
        ym = [x for x in b["lines"] if x[:2] in ("V ", "X ", "Y ", "Z ") or x.startswith("VH ")]
        stim = []
        i = j = 0
        alive_sim = alive_hdl = alive_ret = True
        while i + 1 < len(xi) and j < len(ym):
            # a hardware-only clock (first clock of an ro2rri): VH, Y, Z -- the HDL tie only
            if ym[j].startswith("VH "):
                blk = ym[j:j + 3]
                j += 3
                if len(blk) < 3:
                    break
                _, y, z = blk
                st["hdl_only_clocks"] += 1
                if hdl and (y.startswith("Y fail") or y.startswith("Y none")):
                    alive_hdl = alive_ret = False
                if hdl and alive_hdl:
                    st["hdl_cycles_compared"] += 1
                    if y[2:] != z[2:]:
                        fails.append(dict(base, kind="hdl-correspondence", step=len(stim), impl=y, model=z, stim=list(stim)))
                        alive_hdl = False
                continue
            v, x_impl = xi[i], xi[i + 1]
            i += 2
            # model block: V, X, Y, Z
            if not ym[j].startswith("V "):
                break
            blk = ym[j:j + 4]
            j += 4
            if len(blk) < 4:
                break
            _, x_mod, y, z = blk
            stim.append(v)
            st["steps"] += 1
            impl_failed = x_impl in ("X err", "X panic")
            if alive_sim:
                if impl_failed or x_mod == "X fail":
                    if not (impl_failed and x_mod == "X fail"):
                        fails.append(dict(base, kind="sim-correspondence", step=len(stim) - 1, impl=x_impl, model=x_mod, stim=list(stim)))
                    alive_sim = False
                    st["failed_runs"] += 1
                else:
                    st["sim_steps_compared"] += 1
                    if x_impl != x_mod:
                        fails.append(dict(base, kind="sim-correspondence", step=len(stim) - 1, impl=x_impl, model=x_mod, stim=list(stim)))
                        alive_sim = False
            if hdl and (y.startswith("Y fail") or y.startswith("Y none")):
                alive_hdl = alive_ret = False      # e.g. division by zero: x in hardware, excluded by the property
            if hdl and alive_hdl:
                st["hdl_cycles_compared"] += 1
                if y[2:] != z[2:]:
                    fails.append(dict(base, kind="hdl-correspondence", step=len(stim) - 1, impl=y, model=z, stim=list(stim)))
                    alive_hdl = False
            # the property itself: emitted HDL (under BMV.Vlog) vs the real Go VM, independent of both models
            if hdl and alive_ret and not handshake:
                if impl_failed:
                    alive_ret = False
                elif int(field(x_impl, "pc") or 0) >= len(a["src"]):
                    # the program ran off its end: the simulator halts there, the hardware fetches an
                    # uninitialised ROM word — outside the property (programs end in a jump)
                    alive_ret = False
                    st["ran_off_end"] += 1
                else:
                    st["retire_compared"] += 1
                    st["distinct"].add((a["arch"], tuple(a["src"]), len(stim)))
                    if core(y) != core(x_impl):
                        fails.append(dict(base, kind="property-fails-on-impl", step=len(stim) - 1, impl=x_impl, model=y,
                                          stim=list(stim), why="generated HDL and Go simulator differ after this instruction"))
                        alive_ret = False
            if not alive_sim and not (hdl and (alive_hdl or alive_ret)):
                break
    return st, fails


def run_pair(hbin, args, timeout=2400):
    rc, impl, err = vlib.run([hbin] + args, timeout=timeout, env=vlib.goenv())
    if rc != 0:
        raise RuntimeError("harness failed rc=%s: %s" % (rc, err[-2000:]))
    rc2, model, err2 = vlib.run([_oracle()], input_bytes=impl.encode(), timeout=timeout)
    if rc2 != 0:
        raise RuntimeError("oracle failed rc=%s: %s" % (rc2, err2[-2000:]))
    return impl, model


def replay_case(hbin, case):
    d = vlib.scratch_dir("c01")
    f = os.path.join(d, "replay.txt")
    with open(f, "w") as fh:
        fh.write(case["arch"] + "\n")
        for s in case["src"]:
            fh.write("S " + s + "\n")
        for v in case.get("stim", []):
            fh.write(v + "\n")
    mode = "replayhdlopt" if case.get("opt") else "replayhdl"
    impl, model = run_pair(hbin, [mode, f])
    return compare(impl, model, True)


def nonblocking_variant(f):
    """the same machine and stimulus with i2rw -> i2r and r2owa -> r2o (opcodes added to the architecture)"""
    src = [l.replace("i2rw ", "i2r ", 1) if l.startswith("i2rw ") else l.replace("r2owa ", "r2o ", 1) if l.startswith("r2owa ") else l
           for l in f["src"]]
    arch = f["arch"]
    if " ops=" not in arch:
        return None
    head, ops = arch.rsplit(" ops=", 1)
    ol = set(ops.split(","))
    used = set(x.split()[0] for x in src)
    ol = sorted((ol | used))
    return {"arch": head + " ops=" + ",".join(ol), "src": src, "stim": f.get("stim", []), "opt": f.get("opt", False)}


def corpus_files():
    d = os.path.join(vlib.CORPUS, PROP)
    if not os.path.isdir(d):
        return []
    return sorted(os.path.join(d, f) for f in os.listdir(d) if f.endswith(".txt"))


def run(rep):
    thorough = rep.tier == "thorough"
    hbin = vlib.go_build("c01")
    pr = vlib.prove(PROP, MODULES, exes=[EXE], leanchecker=thorough)
    rep.add_proof(pr, "lake build BMV.Props.C01 && lake env lean <#audit_module BMV.Props.C01>"
                  + (" && lake env leanchecker BMV.Props.C01" if thorough else ""),
                  ["BMV.Isa: hand-written model of procbuilder VM.Step + Simulate (tied by correspondence)",
                   "BMV.Rtl: hand-written model of one clock of the emitted processor Verilog (tied by running the emitted text)",
                   "BMV.Vlog + harness/vlog: the Verilog-subset reader and semantics (docs/Vlog.md) — definition of what emitted text means",
                   "two-state hardware values: registers start at 0, x-propagation not modelled"])
    rep.assumptions += [
        "ha mode, automatic word size, L = 0; vn/hy modes, RAM, threading, shared objects and float opcodes are not modelled (listed under unmodelled)",
        "theorem covers the one-clock opcodes; the handshake opcodes i2rw / r2owa are tied clock-by-clock (Rtl vs emitted text, Isa vs VM) "
        "here and their delivery semantics is C04's subject",
        "in-range operands: jump targets inside the program, no division by zero, programs end in a jump (never run off the ROM)",
        "the simulator's DelayCounter is 0 (no simbox delay distributions)",
    ]
    tot = {"ran_off_end": 0, "machines": 0, "steps": 0, "sim_steps_compared": 0, "hdl_cycles_compared": 0, "retire_compared": 0, "hdl_ok": 0,
           "hdl_rejected": 0, "pruned_machines": 0, "failed_runs": 0, "handshake_machines": 0, "hdl_only_clocks": 0}
    ops, rsz, distinct, fails, samples = {}, {}, set(), [], []

    def absorb(st):
        for k in tot:
            tot[k] += st[k]
        for k, v in st["ops"].items():
            ops[k] = ops.get(k, 0) + v
        for k, v in st["rsize"].items():
            rsz[k] = rsz.get(k, 0) + v
        distinct.update(st["distinct"])

    if os.path.exists(_oracle()):
        for f in corpus_files():
            impl, model = run_pair(hbin, ["replayhdl", f])
            st, fs = compare(impl, model, True)
            absorb(st)
            fails += fs
        plan = [("hdldir", 0, 0), ("hdldiropt", 0, 0), ("hdl", 120, 80), ("hdlopt", 80, 80), ("sim", 200, 150)] if not thorough else \
               [("hdldir", 0, 0), ("hdldiropt", 0, 0), ("hdl", 1500, 150), ("hdlopt", 800, 150), ("sim", 3000, 200)]
        for mode, n, steps in plan:
            impl, model = run_pair(hbin, [mode, str(max(1, n // 3)), str(steps)])
            st, fs = compare(impl, model, mode != "sim")
            absorb(st)
            fails += fs
            if not samples:
                m0 = machines(impl)[0]
                samples.append({"arch": m0["arch"], "program": m0["src"], "first_steps": [x for x in m0["lines"] if x[:2] in ("V ", "X ")][:6]})
    rep.coverage.update({
        "evaluations": tot["steps"],
        "distinct_nontrivial": len(distinct),
        "rule": "directed machines (every co-implemented opcode alone with rset/j, R 1..3, two register sizes, every register pair of interest, with and without the optimisations) + seeded random ha-mode architectures (rsize 8/16/32/64, R 1..3, N/M 0..3, O 2..5, opcode subsets of the co-implemented set "
                "sized around powers of two) x random programs with in-range operands ending in a jump x random port stimuli; "
                "non-trivial/distinct = distinct (machine, program, instruction count) at which the emitted HDL and the Go VM were compared",
        "samples": samples or [{"note": "correspondence did not run"}],
        "traces_validated_against_impl": tot["machines"],
        "programs": tot["machines"],
        "input_distribution": dict(tot, opcodes_in_programs=ops, rsize=rsz),
        "unmodelled": ["modes vn/hy", "RAM (L>0)", "Threaded>0", "shared-object opcodes", "float / fixed-point opcodes", "dynamic opcode families",
                       "stub Simulate methods (sub, r2m, m2r, cmpr, hlt, ...): not co-implemented"],
    })
    real = [f for f in fails if f["kind"] == "property-fails-on-impl"]
    other = [f for f in fails if f["kind"] != "property-fails-on-impl"]
    searched_variants = 0
    if not real and other:
        # search for a concrete failing input near the disagreements: the instruction-level comparison
        # of HDL and VM is only defined for one-clock programs, so re-run the disagreeing machines
        # with their handshake instructions replaced by the non-blocking twins (same fields, same ports)
        for f in [g for g in other if g["kind"] in ("hdl-correspondence", "sim-correspondence")][:8]:
            v = nonblocking_variant(f)
            if v is None:
                continue
            searched_variants += 1
            try:
                _, fs = replay_case(hbin, v)
            except Exception:
                continue
            hit = [g for g in fs if g["kind"] == "property-fails-on-impl"]
            if hit:
                real = hit
                break
    if real:
        f = real[0]
        rep.violation({"property": PROP, "kind": f["kind"], "arch": f["arch"], "src": f["src"], "opt": f["opt"], "stim": f["stim"],
                       "step": f["step"], "go_vm": f["impl"], "hdl_under_vlog": f["model"], "why": f["why"],
                       "other_failing_machines": len(real) - 1})
    elif other or not pr["ok"]:
        broken = list(pr["broken"])
        detail = None
        if other:
            f = other[0]
            detail = {k: f.get(k) for k in ("kind", "arch", "src", "opt", "stim", "step", "impl", "model", "detail")}
            names = {"sim-correspondence": "BMV.Isa vs procbuilder.VM", "hdl-correspondence": "BMV.Rtl vs emitted Verilog under BMV.Vlog",
                     "hdl-not-accepted": "emitted Verilog not accepted by the Verilog reader/elaborator",
                     "destregs-differ": "model destRegs vs the register sets recorded by HLAssemblerNormalize"}
            broken.append("correspondence: " + names.get(f["kind"], f["kind"]))
        rep.violation({"property": PROP, "kind": "proof-or-correspondence-broken", "broken": broken, "first_disagreement": detail,
                       "searched": "emitted HDL (under BMV.Vlog) vs Go VM compared after %d instructions on %d machines, and on %d "
                                   "one-clock variants of the disagreeing machines: no difference"
                                   % (tot["retire_compared"], tot["machines"], searched_variants)}, no_failing_input=True)


def replay(rep, path):
    hbin = vlib.go_build("c01")
    vlib.lake_build([EXE])
    obj = json.load(open(path))
    case = obj if obj.get("arch") else (obj.get("first_disagreement") or {})
    st, fs = replay_case(hbin, case)
    rep.coverage.update({"evaluations": max(1, st["steps"]), "distinct_nontrivial": max(2, len(st["distinct"])),
                         "rule": "replay of " + path, "samples": [case.get("arch")]})
    for f in fs:
        rep.violation({"property": PROP, "kind": f["kind"], "arch": f["arch"], "src": f["src"], "opt": f["opt"], "stim": f.get("stim"),
                       "step": f.get("step"), "impl": f.get("impl"), "model": f.get("model")},
                      no_failing_input=f["kind"] != "property-fails-on-impl")
