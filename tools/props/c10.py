"""C10 — editing a machine's topology never corrupts the bonds it does not touch.

proof:          lean/BMV/Props/C10.lean  (WF preserved by every edit, bonds follow the spec, lifted to
                every finite history from the empty machine)
correspondence: harness/cmd/c10 applies edit histories to the real bondmachine.Bondmachine and dumps
                the topology after every edit; lean/Oracle/C10.lean replays them on BMV.Topology;
                every dumped field is compared.  The oracle also evaluates the property itself
                (wfB, specBonds) on the implementation's dumped states: that is the failing-input
                search on the implementation.
"""
import os
import vlib

LEVEL = "proof"
PROP = "C10"
MODULES = ["BMV.Props.C10"]
EXE = "oracle-c10"


def _oracle():
    return os.path.join(vlib.LEAN, ".lake", "build", "bin", EXE)


def parse_histories(text):
    """-> list of histories; each = list of (edit, [following lines])"""
    hs = []
    cur = None
    for l in text.splitlines():
        if l.startswith("H "):
            cur = []
            hs.append(cur)
        elif l.startswith("E ") or l.startswith("C "):
            cur.append([l if l.startswith("C ") else l[2:], []])
        elif cur is not None and cur:
            cur[-1][1].append(l)
    return hs


def compare(impl_text, model_text):
    """returns (stats, failures); failure = dict(kind, history(list of edits), step, impl, model)"""
    hi = parse_histories(impl_text)
    hm = parse_histories(model_text)
    fails = []
    stats = {"histories": len(hi), "edits": 0, "rejected": 0, "changed": 0, "with_bonds": 0,
             "by_edit": {}, "distinct": set()}
    if len(hi) != len(hm):
        fails.append({"kind": "oracle-desync", "history": [], "step": 0,
                      "impl": "%d histories" % len(hi), "model": "%d histories" % len(hm)})
        return stats, fails
    for a, b in zip(hi, hm):
        edits = [e for e, _ in a]
        prev = None
        for k, ((e, il), (e2, ml)) in enumerate(zip(a, b)):
            stats["edits"] += 1
            op = e.split()[1] if e.startswith("C ") else e.split()[0]
            stats["by_edit"][op] = stats["by_edit"].get(op, 0) + 1
            impl_s = il[0] if il else "<none>"
            model_s = next((x for x in ml if x.startswith("S ") or x == "bad-edit"), "<none>")
            pline = next((x for x in ml if x.startswith("P ")), "")
            if impl_s.startswith("panic"):
                fails.append({"kind": "impl-panic", "history": edits[:k + 1], "step": k, "impl": impl_s, "model": model_s})
                break
            if "err=1" in impl_s:
                stats["rejected"] += 1
            elif prev is not None and impl_s != prev:
                stats["changed"] += 1
                stats["distinct"].add((prev, e))
            if " B= " not in impl_s and " B=" in impl_s:
                stats["with_bonds"] += 1
            prev = impl_s.replace(" err=1", " err=0")
            if "wf=0" in pline or "spec=0" in pline.split("mwf")[0]:
                fails.append({"kind": "property-fails-on-impl", "history": edits[:k + 1], "step": k,
                              "impl": impl_s, "model": model_s, "verdict": pline})
                break
            if "mwf=0" in pline or "mspec=0" in pline:
                fails.append({"kind": "model-self-check", "history": edits[:k + 1], "step": k,
                              "impl": impl_s, "model": model_s, "verdict": pline})
                break
            if impl_s != model_s:
                # for an invocation of the command line tool the model IS the specification of the
                # option (delete exactly the listed ids that exist, once each: theorem cliIds_spec)
                kind = "property-fails-on-impl" if e.startswith("C ") else "correspondence"
                fails.append({"kind": kind, "history": edits[:k + 1], "step": k,
                              "impl": impl_s, "model": model_s, "verdict": pline or "the command line option did not do what it names"})
                break
    return stats, fails


def run_pair(hbin, args, stdin_text=None, timeout=1200):
    rc, impl, err = vlib.run([hbin] + args, timeout=timeout, env=vlib.goenv())
    if rc != 0:
        raise RuntimeError("harness failed rc=%s: %s" % (rc, err[-2000:]))
    rc2, model, err2 = vlib.run([_oracle()], input_bytes=impl.encode(), timeout=timeout)
    if rc2 != 0:
        raise RuntimeError("oracle failed rc=%s: %s" % (rc2, err2[-2000:]))
    return impl, model


def replay_edits(hbin, edits):
    d = vlib.scratch_dir("c10")
    f = os.path.join(d, "replay.txt")
    open(f, "w").write("H 0\n" + "".join(("%s\n" % e) if e.startswith("C ") else ("E %s\n" % e) for e in edits))
    args = ["replay", f]
    if any(e.startswith("C ") for e in edits):
        args += [vlib.go_build_repo("bondmachine"), vlib.scratch_dir("c10cli-replay")]
    impl, model = run_pair(hbin, args)
    return compare(impl, model)


def shrink(hbin, fail):
    """greedy removal of edits while the same kind of failure persists"""
    edits = list(fail["history"])
    kind = fail["kind"]
    best = fail
    changed = True
    while changed and len(edits) > 1:
        changed = False
        for i in range(len(edits) - 1, -1, -1):
            cand = edits[:i] + edits[i + 1:]
            if not cand:
                continue
            _, fs = replay_edits(hbin, cand)
            if fs and fs[0]["kind"] == kind:
                edits = fs[0]["history"]
                best = fs[0]
                changed = True
                break
    return best


def corpus_files():
    d = os.path.join(vlib.CORPUS, PROP)
    if not os.path.isdir(d):
        return []
    return sorted(os.path.join(d, f) for f in os.listdir(d) if f.endswith(".txt"))


def run(rep):
    thorough = rep.tier == "thorough"
    hbin = vlib.go_build("c10")
    pr = vlib.prove(PROP, MODULES, exes=[EXE], leanchecker=thorough)
    rep.add_proof(pr, "lake build BMV.Props.C10 && lake env lean <#audit_module BMV.Props.C10>"
                  + (" && lake env leanchecker BMV.Props.C10" if thorough else ""),
                  ["BMV.Topology is a hand-written model of pkg/bondmachine/bondmachine.go (edit API); tied by correspondence only",
                   "Bond.String / strconv.Itoa injective on well-kinded bonds (names are parsed back by the oracle)"])
    rep.assumptions += [
        "endpoint names are parsed back to bonds by the oracle; Bond.String is assumed injective (strconv.Itoa)",
        "edit arguments are non-negative (the CLI's own range); negative ids are outside the model",
        "Attach_benchmark_core[V2]: only the topology effect is modelled (the core's program is C03/C05 matter)",
    ]
    oracle_ok = os.path.exists(_oracle())
    fails = []
    stats_all = {"histories": 0, "edits": 0, "rejected": 0, "changed": 0, "with_bonds": 0, "by_edit": {}}
    distinct = set()
    samples = []

    def absorb(stats):
        for k in ("histories", "edits", "rejected", "changed", "with_bonds"):
            stats_all[k] += stats[k]
        for k, v in stats["by_edit"].items():
            stats_all["by_edit"][k] = stats_all["by_edit"].get(k, 0) + v
        distinct.update(stats["distinct"])

    if oracle_ok:
        # 1. corpus of minimised past disagreements
        for f in corpus_files():
            impl, model = run_pair(hbin, ["replay", f])
            st, fs = compare(impl, model)
            absorb(st)
            fails += fs
        # 2. generated histories
        n, maxlen = (20000, 30) if thorough else (400, 25)
        impl, model = run_pair(hbin, ["gen", str(n), str(maxlen)])
        st, fs = compare(impl, model)
        absorb(st)
        fails += fs
        hs = parse_histories(impl)
        for h in hs[:3]:
            samples.append({"history": [e for e, _ in h], "final_state": (h[-1][1] or ["?"])[0]})
        # 2b. the command line layer: the real cmd/bondmachine binary driven on a saved machine
        cli = vlib.go_build_repo("bondmachine")
        ncli = 300 if thorough else 40
        impl, model = run_pair(hbin, ["cli", str(ncli), "6", cli, vlib.scratch_dir("c10cli")])
        st, fs = compare(impl, model)
        for f in fs:
            f["cli"] = True
        absorb(st)
        fails += fs
        rep.coverage["cli_histories"] = st["histories"]
        # 3. exhaustive short histories over a fixed alphabet
        depth = 4 if thorough else 2
        impl, model = run_pair(hbin, ["exhaustive", str(depth)])
        st, fs = compare(impl, model)
        absorb(st)
        fails += fs
        rep.coverage["exhaustive_depth"] = depth
        rep.coverage["exhaustive_histories"] = st["histories"]

    rep.coverage.update({
        "evaluations": stats_all["edits"],
        "distinct_nontrivial": len(distinct),
        "rule": "seeded random edit histories (biased to deletes of middle ports, stale names, attach) + all "
                "histories up to the stated depth over an 18-edit alphabet (incl. processors built from an already used domain and unused domains); non-trivial = accepted edit that "
                "changed the dumped topology; distinct = distinct (state before, edit) pairs",
        "samples": samples or [{"note": "correspondence did not run"}],
        "traces_validated_against_impl": stats_all["histories"],
        "input_distribution": {k: v for k, v in stats_all.items()},
    })

    # ---- outcome ----
    real = [f for f in fails if f["kind"] in ("property-fails-on-impl", "impl-panic")]
    other = [f for f in fails if f not in real]
    if real:
        f = shrink(hbin, real[0])
        rep.violation({"property": PROP, "kind": f["kind"], "edits": f["history"], "step": f["step"],
                       "impl_state": f["impl"], "model_state": f["model"], "verdict": f.get("verdict", ""),
                       "replay": "python3 tools/check.py C10 --replay <this file>"})
    elif other or not pr["ok"]:
        broken = list(pr["broken"])
        detail = None
        if other:
            f = shrink(hbin, other[0])
            detail = {"edits": f["history"], "step": f["step"], "impl_state": f["impl"], "model_state": f["model"]}
            broken.append("correspondence BMV.Topology vs bondmachine.Bondmachine (%s)" % f["kind"])
        # the wider search already ran above (property evaluated on every implementation state)
        rep.violation({"property": PROP, "kind": "proof-or-correspondence-broken", "broken": broken,
                       "first_disagreement": detail,
                       "searched": "wfB/specBonds evaluated on %d implementation states: all satisfied" % stats_all["edits"]},
                      no_failing_input=True)


def replay(rep, path):
    import json
    hbin = vlib.go_build("c10")
    vlib.lake_build([EXE])
    obj = json.load(open(path))
    edits = obj.get("edits") or (obj.get("first_disagreement") or {}).get("edits") or []
    st, fs = replay_edits(hbin, edits)
    rep.coverage.update({"evaluations": st["edits"], "distinct_nontrivial": max(2, len(st["distinct"])),
                         "rule": "replay of " + path, "samples": [edits]})
    for f in fs:
        rep.violation({"property": PROP, "kind": f["kind"], "edits": f["history"], "step": f["step"],
                       "impl_state": f["impl"], "model_state": f["model"], "verdict": f.get("verdict", "")},
                      no_failing_input=f["kind"] not in ("property-fails-on-impl", "impl-panic"))
