"""C15 — simulation rules are applied exactly as written.

proof:          lean/BMV/Props/C15.lean
                part 1 (rule text / rule list): parse∘print = id on exactly the image of Add, normal
                form, suspend/reactivate/delete list surgery, every reachable list re-typable;
                part 2 (application): suspended rules compile to nothing, the state handed to the
                machine step differs from the previous one exactly by the firing set rules
                (value, frame, tick arithmetic of absolute and periodic rules), show/get report
                the value of the named element, on-valid / on-exit triggers.
correspondence: harness/cmd/c15 (a) calls the real simbox.Add / Rule.String / Print / Del / Suspend /
                Reactivate and the JSON save+load of cmd/simbox on generated strings and edit
                histories; (b) builds small real machines, writes generated rule files and runs the
                real `cmd/bondmachine -sim` loop; lean/Oracle/C15.lean replays both on BMV.Simbox
                and additionally evaluates the property itself on the implementation's per-tick
                dumps (P lines).  Every line is compared.
"""
import json
import os
import re
import vlib

LEVEL = "proof"
PROP = "C15"
MODULES = ["BMV.Props.C15"]
EXE = "oracle-c15"
FINDING_ID = "C15-periodic-set"


def _oracle():
    return os.path.join(vlib.LEAN, ".lake", "build", "bin", EXE)


def unhx(s):
    try:
        return bytes.fromhex(s[1:]).decode("utf-8", "replace")
    except ValueError:
        return s


def run_pair(cmd, timeout=1500):
    rc, impl, err = vlib.run(cmd, timeout=timeout, env=vlib.goenv())
    if rc != 0:
        raise RuntimeError("harness failed rc=%s: %s" % (rc, err[-2000:]))
    rc2, model, err2 = vlib.run([_oracle()], input_bytes=impl.encode(), timeout=timeout)
    if rc2 != 0:
        raise RuntimeError("oracle failed rc=%s: %s" % (rc2, err2[-2000:]))
    return impl, model


# ------------------------------------------------------------------ text / histories

def split_text(text):
    """-> (singles, histories); singles = [(T line, [result lines])], histories = [[(E/J line, [lines])]]"""
    singles, hists = [], []
    cur = None      # current history
    last = None
    for l in text.splitlines():
        if l.startswith("T "):
            last = [l, []]
            singles.append(last)
            cur = None
        elif l.startswith("H "):
            cur = []
            hists.append(cur)
            last = None
        elif l.startswith("E ") or l == "J":
            last = [l, []]
            if cur is not None:
                cur.append(last)
        elif l.startswith(("S ", "# Q", "G", "M ", "U ")):
            last = None
            cur = None
        elif last is not None:
            last[1].append(l)
    return singles, hists


def compare_text(impl, model, stats, fails):
    si, hi = split_text(impl)
    sm, hm = split_text(model)
    if len(si) != len(sm) or len(hi) != len(hm):
        fails.append({"kind": "oracle-desync", "lines": [], "impl": "%d/%d" % (len(si), len(hi)),
                      "model": "%d/%d" % (len(sm), len(hm))})
        return
    for (t, a), (_, b) in zip(si, sm):
        stats["strings"] += 1
        ia = a[0] if a else "<none>"
        ib = b[0] if b else "<none>"
        if " SF=ok" in ia:
            stats["short_forms_checked"] += 1
        if ia.startswith("R ok"):
            stats["accepted"] += 1
            stats["distinct"].add(ia.split(" S=")[0])
            m = re.search(r"R ok (\d)\.(\d+)\.(\d)\.", ia)
            if m:
                key = "timec%s/action%s" % (m.group(1), m.group(3))
                stats["forms"][key] = stats["forms"].get(key, 0) + 1
        elif ia == "R err":
            stats["rejected"] += 1
        if ia.startswith("panic"):
            fails.append({"kind": "impl-panic", "lines": [t], "impl": ia, "model": ib})
        elif "RT=fail" in ia:
            fails.append({"kind": "property-fails-on-impl", "what": "parse(print(r)) != r", "lines": [t],
                          "string": unhx(t[2:]), "impl": ia, "model": ib})
        elif "SF=fail" in ia or "KW=fail" in ia:
            why = []
            if "SF=fail" in ia:
                why.append("the documented short form is stored as a different rule than its long form '%s:unsigned'" % unhx(t[2:]))
            if "KW=fail" in ia:
                why.append("the stored rule prints as '%s': not the time constraint / action the string names"
                           % unhx(ia.split(" S=")[1].split()[0]))
            fails.append({"kind": "property-fails-on-impl",
                          "what": "Add stores a rule that is not the rule the string denotes: " + "; ".join(why),
                          "lines": [t], "string": unhx(t[2:]), "impl": ia, "model": ib})
        elif ia != ib:
            fails.append({"kind": "correspondence-text", "lines": [t], "string": unhx(t[2:]), "impl": ia, "model": ib})
    for ha, hb in zip(hi, hm):
        stats["histories"] += 1
        done = []
        for (e, a), (_, b) in zip(ha, hb):
            done.append(e)
            stats["edits"] += 1
            ia = a[0] if a else "<none>"
            ib = b[0] if b else "<none>"
            if e.startswith("E "):
                op = e.split()[1]
                stats["by_edit"][op] = stats["by_edit"].get(op, 0) + 1
                if " err=1 " in ia:
                    stats["edits_rejected"] += 1
                if "[SUSPENDED]".encode().hex() in ia:
                    stats["prints_with_suspended"] += 1
            if ia.startswith("panic"):
                fails.append({"kind": "impl-panic", "lines": ["H 0"] + done, "impl": ia, "model": ib})
                break
            if ia.startswith("L ") and not ia.endswith("rebuild=ok"):
                fails.append({"kind": "property-fails-on-impl", "what": "rule list does not survive save/load + listing",
                              "lines": ["H 0"] + done, "impl": ia, "model": ib})
                break
            if ia != ib:
                fails.append({"kind": "correspondence-text", "lines": ["H 0"] + done, "impl": ia, "model": ib})
                break


# ------------------------------------------------------------------ simulations

def split_sims(text):
    """-> list of dict(q=Q line, lines=[K/W/C/X lines], p=verdict, alt=[A lines], rules=[U lines])"""
    cases = []
    cur = None
    for l in text.splitlines():
        if l.startswith("# Q"):
            cur = {"q": l[2:], "lines": [], "p": None, "alt": [], "rules": [], "head": []}
            cases.append(cur)
        elif cur is None:
            continue
        elif l == "G":
            cur = None
        elif l.startswith("U "):
            cur["rules"].append(l[2:])
        elif l.startswith(("S ", "M ")):
            cur["head"].append(l)
        elif l.startswith("P "):
            cur["p"] = l
        elif l.startswith("Z "):
            cur["z"] = l
        elif l.startswith("D "):
            cur["d"] = l
        elif l.startswith("N "):
            cur.setdefault("src", []).append(l[2:])
        elif l.startswith("A "):
            cur["alt"].append(l[2:])
        else:
            cur["lines"].append(l)
    return cases


BULK = ("get_all", "get_all_internal", "show_all", "show_all_internal")


def rule_text(dump):
    """the rule string of a U line (timec.tick.action.obj.extra.susp), as Rule.String prints it"""
    f = dump.split(".")
    if len(f) != 6:
        return dump
    tc, ac = int(f[0]), int(f[2])
    obj, ext = unhx(f[3]), unhx(f[4])
    if tc in (0, 2) and ac < 3:
        tick = int(f[1])
        if tick >= 2 ** 63:
            tick -= 2 ** 64
        s = "%s:%d:%s:%s:%s" % (["absolute", "", "relative"][tc], tick, ["set", "get", "show"][ac], obj, ext)
    elif tc == 1:
        s = "config:" + obj + (":" + ext if obj in BULK else "")
    elif tc in (3, 4, 5) and ac in (1, 2):
        s = "%s:%s:%s:%s" % (["onvalid", "onrecv", "onexit"][tc - 3], ["get", "show"][ac - 1], obj, ext)
    else:
        s = "?" + dump
    return s + (" [SUSPENDED]" if f[5] == "1" else "")


OBSERVERS = ("config:show_ticks", "config:show_io_pre", "config:show_io_post")


def has_periodic_set(case):
    for d in case["rules"]:
        f = d.split(".")
        if len(f) == 6 and f[0] == "2" and f[2] == "0" and f[5] == "0":
            return True
    return False


def compare_sims(impl, model, stats, fails):
    ci = split_sims(impl)
    cm = split_sims(model)
    if len(ci) != len(cm):
        fails.append({"kind": "oracle-desync", "lines": [], "impl": "%d sims" % len(ci), "model": "%d sims" % len(cm)})
        return
    for a, b in zip(ci, cm):
        stats["sims"] += 1
        stats["ticks"] += sum(1 for l in a["lines"] if l.startswith("K "))
        cls = next((l for l in a["lines"] if l.startswith("X ")), "X ?")
        stats["exit"][cls] = stats["exit"].get(cls, 0) + 1
        mname = next((w[8:] for h in a["head"] for w in h.split() if w.startswith("machine=")), "?")
        stats["machines"][mname] = stats["machines"].get(mname, 0) + 1
        for d in a["rules"]:
            f = d.split(".")
            if len(f) == 6:
                k = "timec%s/action%s%s" % (f[0], f[2], "/suspended" if f[5] == "1" else "")
                stats["sim_rules"][k] = stats["sim_rules"].get(k, 0) + 1
                if f[0] == "1" and unhx(f[3]) not in ("show_ticks", "show_io_pre", "show_io_post") or \
                        (f[0] == "1" and f[5] == "1"):
                    k2 = unhx(f[3]) + ("/suspended" if f[5] == "1" else "")
                    stats["config_rules"][k2] = stats["config_rules"].get(k2, 0) + 1
        shows = sum(1 for l in a["lines"] if l.startswith("W "))
        rows = sum(1 for l in a["lines"] if l.startswith("C row="))
        stats["show_lines"] += shows
        stats["report_rows"] += rows
        if cls == "X ok" and (shows or rows or any(re.search(r"pre=.*:[1-9]\d*:", l) for l in a["lines"])):
            stats["distinct_sim"].add(a["q"])
        info = {"lines": [a["q"]], "rules": [rule_text(d) for d in a["rules"]], "setup": a["head"]}
        verdict = b["p"] or "P ?"
        same = a["lines"] == b["lines"]
        if "z" in a:
            stats["suspension_differentials"] += 1
        if a.get("z") == "Z susp=fail":
            info.update({"kind": "property-fails-on-impl", "verdict": verdict, "sub": "susp",
                         "what": "a suspended rule has an effect: the run differs from the run with the suspended rules deleted"})
            fails.append(info)
            continue
        if same and verdict == "P ok":
            continue
        first = next(((x, y) for x, y in zip(a["lines"] + ["<end>"] * 99, b["lines"] + ["<end>"] * 99) if x != y), ("", ""))
        info.update({"impl": first[0], "model": first[1], "verdict": verdict})
        info["_src"] = b.get("src")
        ik = [l for l in a["lines"] if l.startswith("K ")]
        mk_ = [l for l in b["lines"] if l.startswith("K ")]
        trace_agrees = verdict == "P ok" and ik == mk_[:len(ik)]
        panicked = cls.startswith("X other") and "70616e6963" in cls   # "panic" in the hex of stderr's first line
        if "d" in b:
            # the implementation stored a rule that is not the rule its string denotes; the model's
            # lines are the prediction from the strings
            info["kind"] = "property-fails-on-impl"
            info["sub"] = "decode"
            info["what"] = ("the rule stored for an accepted string is not the rule the string denotes, and the simulation "
                            "of the rule file differs from the one predicted from the strings: " + b["d"][2:])
            fails.append(info)
        elif panicked and not same:
            info["kind"] = "impl-panic"
            mcls = next((l for l in b["lines"] if l.startswith("X ")), "X ?")
            info["what"] = ("the real `bondmachine -sim` panics on an accepted rule file (predicted outcome: %s): %s"
                            % (mcls[2:], unhx(cls.split()[-1])))
            fails.append(info)
        elif has_periodic_set(a) and b["alt"] and a["lines"] == b["alt"]:
            # exactly the recorded defect: the run equals the model with periodic sets never applied
            info["kind"] = "periodic-set-not-applied"
            fails.append(info)
        elif verdict.startswith("P fail"):
            info["kind"] = "property-fails-on-impl"
            info["sub"] = "inject"
            info["what"] = "state handed to the machine step is not 'previous state + firing set rules': " + verdict[7:]
            fails.append(info)
        elif (cls == "X init") != (next((l for l in b["lines"] if l.startswith("X ")), "") == "X init"):
            # the simulator refuses at start a rule file whose objects all name elements of the machine
            # (or starts one that names an element the machine does not have)
            info["kind"] = "property-fails-on-impl"
            info["sub"] = "resolve"
            info["what"] = ("object names are not resolved against the machine as written: the implementation %s the rule file, "
                            "the elements of the machine (inputs, outputs, processor ports and registers as dumped in 'setup') say it %s"
                            % (("refuses to start", "must start") if cls == "X init" else ("starts", "must be refused (unknown element)")))
            fails.append(info)
        elif trace_agrees and ik:
            # the machine trace (every IO dump the implementation printed) is the one the model predicts
            # and injection is exact on it, so the model of the machine is confirmed on this run; what
            # differs are the samples the rules report (show lines / report rows / exit)
            info["kind"] = "property-fails-on-impl"
            info["sub"] = "samples"
            info["what"] = ("the samples reported by the show/get rules differ from those predicted from the active rules "
                            "on a machine trace that agrees with the prediction (%d IO dumps equal, injection exact)" % len(ik))
            fails.append(info)
        else:
            info["kind"] = "correspondence-sim"
            fails.append(info)


# ------------------------------------------------------------------ shrinking / replay

def replay_lines(hbin, cli, lines):
    d = vlib.scratch_dir("c15")
    f = os.path.join(d, "replay.txt")
    open(f, "w").write("\n".join(lines) + "\n")
    impl, model = run_pair([hbin, "replay", f, cli, os.path.join(d, "replay-sim")])
    stats = new_stats()
    fails = []
    compare_text(impl, model, stats, fails)
    compare_sims(impl, model, stats, fails)
    return stats, fails


def flatten_q(q, rules, src=None):
    """Q line whose edits are add(+sus) of the final rule list (observer rules dropped); when the
    oracle supplied the original spelling of every surviving rule (N lines) those are used, so that
    a short form stays a short form"""
    f = q.split()
    head = f[:5]
    edits = []
    n = 0
    if src:
        for ent in src:
            h, su = ent.split()
            edits.append("add:" + h)
            if su == "1":
                edits.append("sus:%d" % n)
            n += 1
        return head, edits
    rules = list(rules)
    # the harness appends the three observer rules itself
    if len(rules) >= 3 and all(rule_text(r) in OBSERVERS for r in rules[-3:]):
        rules = rules[:-3]
    for d in rules:
        txt = rule_text(d)
        susp = txt.endswith(" [SUSPENDED]")
        s = txt.replace(" [SUSPENDED]", "")
        edits.append("add:x" + s.encode().hex())
        if susp:
            edits.append("sus:%d" % n)
        n += 1
    return head, edits


def shrink_sim(hbin, cli, fail):
    """greedy: drop rules, then ticks, while the same kind of failure persists"""
    try:
        head, edits = flatten_q(fail["lines"][0], [r for r in fail.get("_rules_raw", [])], fail.get("_src"))
    except Exception:
        return fail
    if not edits:
        return fail
    best = fail

    def groups(ed):
        g = []
        for e in ed:
            if e.startswith("add:"):
                g.append([e])
            elif g:
                g[-1].append(e)
        return g

    def build(gs):
        out = []
        for i, g in enumerate(gs):
            out.append(g[0])
            if len(g) > 1:
                out.append("sus:%d" % i)
        return out

    def attempt(h, gs):
        _, fs = replay_lines(hbin, cli, [" ".join(h + build(gs))])
        fs = [x for x in fs if x["kind"] == fail["kind"] and x.get("sub") == fail.get("sub")]
        return fs[0] if fs else None

    gs = groups(edits)
    r = attempt(head, gs)
    if r is None:
        return fail
    best = r
    changed = True
    while changed and len(gs) > 1:
        changed = False
        for i in range(len(gs) - 1, -1, -1):
            cand = gs[:i] + gs[i + 1:]
            r = attempt(head, cand)
            if r is not None:
                gs, best, changed = cand, r, True
                break
    t = int(head[2])
    while t > 1:
        h2 = head[:2] + [str(t - 1)] + head[3:]
        r = attempt(h2, gs)
        if r is None:
            break
        head, best, t = h2, r, t - 1
    return best


def new_stats():
    return {"strings": 0, "accepted": 0, "rejected": 0, "histories": 0, "edits": 0, "edits_rejected": 0,
            "prints_with_suspended": 0, "by_edit": {}, "forms": {}, "distinct": set(),
            "sims": 0, "ticks": 0, "exit": {}, "sim_rules": {}, "show_lines": 0, "report_rows": 0,
            "distinct_sim": set(), "suspension_differentials": 0, "config_rules": {}, "short_forms_checked": 0, "machines": {}}


def corpus_files():
    d = os.path.join(vlib.CORPUS, PROP)
    if not os.path.isdir(d):
        return []
    return sorted(os.path.join(d, f) for f in os.listdir(d) if f.endswith(".txt"))


def run(rep):
    thorough = rep.tier == "thorough"
    hbin = vlib.go_build("c15")
    cli = vlib.go_build_repo("bondmachine")
    pr = vlib.prove(PROP, MODULES, exes=[EXE], leanchecker=thorough)
    rep.add_proof(pr, "lake build BMV.Props.C15 && lake env lean <#audit_module BMV.Props.C15>"
                  + (" && lake env leanchecker BMV.Props.C15" if thorough else ""),
                  ["BMV.Simbox is a hand-written model of pkg/simbox/simbox.go, of SimDrive.Init / SimReport.Init / "
                   "SimConfig.Init / GetElementLocation / EventListShow (pkg/bondmachine) and of the tick loop in "
                   "cmd/bondmachine; tied by correspondence only",
                   "Go strings.Split/Join on ':' = BMV.Simbox.splitStr/joinStr (core List.splitOn / String.intercalate); "
                   "strconv.Atoi/Itoa = BMV.Simbox.atoi/itoa: the inverse laws are proved for the model, the agreement "
                   "with Go is checked on every generated string",
                   "encoding/json struct fidelity for valid UTF-8 strings (save/load is exercised, not modelled)",
                   "bmnumbers decimal literals and the unsigned/hex/bin output formats (property C08) are glue in the oracle",
                   "stdout / CSV parsing of the bondmachine CLI in harness/cmd/c15"])
    rep.assumptions += [
        "rule strings are valid UTF-8 (Go strings with invalid bytes are not representable in the model; observed: "
        "encoding/json replaces them by U+FFFD on save, so such a rule file does not reload identically)",
        "list indices are non-negative (cmd/simbox uses -1 for 'flag not given'; other negative indices panic in Del/Suspend/Reactivate)",
        "simulated machines have inert processors (program = one nop): the theorems hold for every machine step, "
        "the correspondence exercises the rule machinery on the bond fabric of 7 small machines of different shapes",
        "register size 8 in the simulations; set values are plain decimal literals; show/get types unsigned, hex, bin",
        "set rules naming a valid/recv flag (iKv, iKr, oKv, oKr) are accepted and silently have no effect in the code; "
        "the model follows the code here and the theorems exclude flags (see docs/C15.md, observation O2)",
    ]
    fails = []
    stats = new_stats()
    samples = []
    if os.path.exists(_oracle()):
        d = vlib.scratch_dir("c15")
        for f in corpus_files():
            impl, model = run_pair([hbin, "replay", f, cli, os.path.join(d, "corpus-sim")])
            compare_text(impl, model, stats, fails)
            compare_sims(impl, model, stats, fails)
        n, nh, ml = (30000, 4000, 12) if thorough else (2500, 300, 8)
        impl, model = run_pair([hbin, "text", str(n), str(nh), str(ml)])
        compare_text(impl, model, stats, fails)
        s0, h0 = split_text(impl)
        for t, a in s0[40:43]:
            samples.append({"add": unhx(t[2:]), "impl": (a or ["?"])[0][:160]})
        ns = 1500 if thorough else 120
        impl, model = run_pair([hbin, "sim", str(ns), cli, os.path.join(d, "sim")])
        before = len(fails)
        compare_sims(impl, model, stats, fails)
        raw = {c["q"]: c["rules"] for c in split_sims(impl)}
        for f in fails[before:]:
            f["_rules_raw"] = raw.get(f["lines"][0], [])
        for c in split_sims(impl)[:2]:
            samples.append({"sim": c["head"], "rules": [rule_text(x) for x in c["rules"]], "observed": c["lines"][:4]})

    rep.coverage.update({
        "evaluations": stats["strings"] + stats["edits"] + stats["ticks"],
        "distinct_nontrivial": len(stats["distinct"]) + len(stats["distinct_sim"]),
        "rule": "text: every documented example, the grid {absolute,relative}x{set,get,show}x{27 tick spellings}x{4,5 words}, "
                "event and config forms with every option, every object mnemonic kind, seeded mostly-valid and malformed "
                "strings; histories of add/del/suspend/reactivate (in and out of range) followed by JSON save+load; "
                "sim: 49 fixed cases + seeded rule lists (absolute/periodic set, get, show, on-valid, on-exit, on-recv, config, "
                "suspended and deleted rules, rejected rules; one list in three opens with a bulk/plain config rule "
                "(get_all, get_all_internal, show_all, show_all_internal x format, get_ticks, show_*), active or suspended, "
                "followed by timed get/show rules in another format on elements it covers; one in three mixes on-valid / on-exit "
                "show and get rules (short and long forms) with timed shows on different elements in random order) on 7 machines (wire, processor in line, fan-out, processor with more outputs than inputs, with more "
                "inputs than outputs, machine and processor without inputs, two processors of different shapes; every nameable element "
                "incl. the largest valid index of every kind and the first index past it) run through the real CLI; "
                "every list with a suspended rule is also run with the suspended rules deleted and compared byte for byte. non-trivial = distinct "
                "accepted rules + distinct simulations that completed and injected, showed or reported something",
        "samples": samples or [{"note": "correspondence did not run"}],
        "traces_validated_against_impl": stats["histories"] + stats["sims"],
        "input_distribution": {k: (v if not isinstance(v, set) else len(v)) for k, v in stats.items()},
        "unmodelled": ["onrecv rules (accepted by Add, ignored by the simulator: model = code)",
                       "event triggers for get rules (code: 'TODO get from events'; model = code)",
                       "SinglePipelineSimulate and Fitness_default loops (same SimDrive/SimReport; not driven by rule files)",
                       "bmnumbers literal syntaxes other than decimal; types other than unsigned/hex/bin; register sizes other than 8",
                       "processor level config rules (show_pc, show_disasm, ...): text round trip only"],
    })

    # ---- outcome ----
    known = {f.get("id"): f for f in vlib.load_known_findings(PROP)}
    periodic = [f for f in fails if f["kind"] == "periodic-set-not-applied"]
    real = [f for f in fails if f["kind"] in ("property-fails-on-impl", "impl-panic")]
    other = [f for f in fails if f not in periodic and f not in real]
    if periodic:
        f = shrink_sim(hbin, cli, periodic[0])
        what = ("periodic set rules (relative:<p>:set:<obj>:<v>) are compiled into SimDrive.PerSet but never applied by the "
                "simulation loop: %d generated simulations differ from the model exactly by that" % len(periodic))
        if FINDING_ID in known:
            rep.known(known[FINDING_ID].get("what_fails", what))
        else:
            rep.violation({"property": PROP, "kind": "periodic-set-not-applied", "what": what,
                           "replay_lines": f["lines"], "rules": f.get("rules"), "setup": f.get("setup"),
                           "impl": f.get("impl"), "model": f.get("model"), "verdict": f.get("verdict"),
                           "fix": "repo_patches/C15-periodic-set.diff", "proposed_finding_id": FINDING_ID,
                           "replay": "python3 tools/check.py C15 --replay <this file>"})
    if real:
        f = real[0]
        if f["lines"] and f["lines"][0].startswith("Q "):
            f = shrink_sim(hbin, cli, f)
        obj = {"property": PROP, "kind": f["kind"], "what": f.get("what", ""), "replay_lines": list(f["lines"]),
               "string": f.get("string"), "rules": f.get("rules"), "setup": f.get("setup"),
               "impl": f.get("impl"), "model": f.get("model"), "verdict": f.get("verdict"),
               "replay": "python3 tools/check.py C15 --replay <this file>"}
        if f["lines"] and f["lines"][0].startswith("T "):
            # a mis-decoded string: add the simulation in which the stored rule behaves differently
            # from the rule the string denotes, if one was generated
            sims = [x for x in real if x.get("sub") == "decode"]
            if sims:
                g = shrink_sim(hbin, cli, sims[0])
                obj["simulation"] = {k: g.get(k) for k in ("what", "rules", "setup", "impl", "model")}
                obj["simulation"]["replay_line"] = g["lines"][0]
                obj["replay_lines"] += g["lines"]
        rep.violation(obj)
    elif other or not pr["ok"]:
        broken = list(pr["broken"])
        detail = None
        if other:
            f = other[0]
            if f["lines"] and f["lines"][0].startswith("Q "):
                f = shrink_sim(hbin, cli, f)
            detail = {k: v for k, v in f.items() if not k.startswith("_")}
            broken.append("correspondence BMV.Simbox vs implementation (%s)" % f["kind"])
        rep.violation({"property": PROP, "kind": "proof-or-correspondence-broken", "broken": broken,
                       "first_disagreement": detail, "replay_lines": (detail or {}).get("lines", []),
                       "searched": "parse(print(r))==r evaluated on %d accepted rules of the implementation, list rebuild on %d "
                                   "histories, injection exactness on %d simulated ticks: all satisfied"
                                   % (stats["accepted"], stats["histories"], stats["ticks"])},
                      no_failing_input=True)


def replay(rep, path):
    hbin = vlib.go_build("c15")
    cli = vlib.go_build_repo("bondmachine")
    vlib.lake_build([EXE])
    obj = json.load(open(path))
    lines = obj.get("replay_lines") or []
    stats, fails = replay_lines(hbin, cli, lines)
    rep.coverage.update({"evaluations": stats["strings"] + stats["edits"] + stats["ticks"],
                         "distinct_nontrivial": max(2, len(stats["distinct"]) + len(stats["distinct_sim"])),
                         "rule": "replay of " + path, "samples": [lines]})
    known = {f.get("id") for f in vlib.load_known_findings(PROP)}
    for f in fails:
        if f["kind"] == "periodic-set-not-applied" and FINDING_ID in known:
            rep.known("periodic set rules are never applied (replay)")
            continue
        rep.violation({"property": PROP, "kind": f["kind"], "what": f.get("what", ""), "replay_lines": f["lines"],
                       "rules": f.get("rules"), "impl": f.get("impl"), "model": f.get("model"), "verdict": f.get("verdict")},
                      no_failing_input=f["kind"] not in ("property-fails-on-impl", "impl-panic", "periodic-set-not-applied"))
