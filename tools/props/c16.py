"""C16 — every machine a front-end emits is well formed.

proof:          lean/BMV/Props/C16.lean about the independent validator `WfBM` (BMV/WfBM.lean):
                wfbm_sim_safe (a validated machine can never make the ISA step fail for a
                decoding / indexing / program-counter reason), assemble_wf (every machine of the
                model assembler validates), assemble_rejects_* (an operand that cannot fit =>
                error), neededBits boundary lemmas.
tie:            every machine emitted by a real front-end in this run is dumped by harness/cmd/c16
                (canonical text) and fed to the compiled `WfBM` (oracle-c16): basm on the C05
                generator (incl. sources with an unfit operand, which must be REJECTED; plus sources outside
                the C05 model: ROM+RAM code in hy/vn mode, ROM/RAM data sections around 2^k cells), basm on
                every *.basm under the repository (standalone; the reason is listed when it does
                not assemble), neuralbond -> basm (register sizes 32, 64) and bmqsim -> basm on small
                inputs, the machines saved by the real bondgo CLI in its multi-processor modes (-mpm,
                -multi-abstract-assembly-input; standard and non-standard register sizes) and by
                bmbuilder.  Where the harness has the source text, the machine's external port counts
                and bonds are also compared with the source's cpdef / ioatt lines (Basm.wiringAgrees).
                The exact structural agreement of the model assembler with the real one is C05's tie.
"""
import json
import os
import vlib

LEVEL = "proof"
PROP = "C16"
MODULES = ["BMV.Props.C16"]
EXE = "oracle-c16"


def _oracle():
    return os.path.join(vlib.LEAN, ".lake", "build", "bin", EXE)


OPS_SEEN = set()      # opcode names in the opcode lists of the machines emitted in this run
REGISTRY = {}         # {"names": [...], "dups": [...], "skipped": [...]} from the `ops` mode


def run_pair(hbin, args, timeout=900):
    rc, impl, err = vlib.run([hbin] + args, timeout=timeout, env=vlib.goenv())
    for l in impl.splitlines():
        if l.startswith("C "):
            for f in l.split():
                if f.startswith("ops=") and len(f) > 4:
                    OPS_SEEN.update(f[4:].split(","))
        elif l.startswith("OPS "):
            REGISTRY["names"] = l.split()[1].split(",")
    if rc != 0:
        raise RuntimeError("harness failed rc=%s: %s" % (rc, err[-2000:]))
    rc2, model, err2 = vlib.run([_oracle()], input_bytes=impl.encode(), timeout=timeout)
    if rc2 != 0:
        raise RuntimeError("oracle failed rc=%s: %s" % (rc2, err2[-2000:]))
    return impl, model


def instances(model_text):
    """-> list of dict(kind, mustfail, what, result, cls, wf, reasons, unmodelled, words, cps)"""
    res = []
    cur = None
    for l in model_text.splitlines():
        if l.startswith("OPSDUP "):
            f = l.split()
            REGISTRY["dups"] = [] if f[2] == "-" else f[2].split(",")
        elif l.startswith("OPSKIP"):
            REGISTRY["skipped"] = l.split()[1:]
        if l.startswith("CASE "):
            f = l.split()
            cur = {"kind": f[2], "mustfail": f[3].endswith("=1"), "what": "", "result": "?", "cls": "", "wf": None,
                   "reasons": [], "unmodelled": [], "words": 0, "cps": 0, "cf": None}
            res.append(cur)
        elif cur is None:
            continue
        elif l.startswith("F "):
            cur["what"] = l[2:]
        elif l.startswith("R ok"):
            cur["result"] = "ok"
        elif l.startswith("R err"):
            cur["result"] = "err"
            cur["cls"] = " ".join(l.split()[2:])
        elif l.startswith("WF "):
            f = l.split()
            cur["wf"] = f[1] == "1"
            for x in f[2:]:
                k, v = x.split("=", 1)
                if k == "reasons" and v != "-":
                    cur["reasons"] = v.split(",")
                elif k == "unmodelled" and v != "-":
                    cur["unmodelled"] = v.split(",")
                elif k in ("words", "cps"):
                    cur[k] = int(v)
                elif k == "cf":
                    cur["cf"] = v == "1"
    return res


def only_unmodelled(inst):
    return bool(inst["unmodelled"]) and all(r.endswith("opcode-unmodelled-or-wrong-mode") or r.endswith("rom-word-field-or-decode")
                                             or r.endswith("rom-word-width") for r in inst["reasons"])


def judge(inst):
    """-> None | (what fails, tag)"""
    if inst["mustfail"]:
        if inst["result"] == "ok":
            return ("a source with an operand that cannot fit was accepted and a machine emitted", "unfit-accepted")
        if inst["cls"].startswith("panic"):
            return ("a source that cannot fit makes the tool panic instead of reporting an error", "unfit-panic")
        return None
    if inst["result"] == "err" and inst["cls"].startswith("panic"):
        return ("the front-end panics", "panic")
    if inst["result"] == "ok" and inst["wf"] is False and not only_unmodelled(inst):
        return ("the emitted machine is ill-formed: " + ",".join(inst["reasons"]), "ill-formed")
    if inst["result"] == "ok" and inst["cf"] is False and (inst["kind"].startswith("corpus:") or "+romsize" in inst["kind"]):
        # these sources jump to labels only: a target beyond the program means the word was assembled with another ROM address
        # width than the machine declares (the romsize + data section defect repaired in /repo ffd6556)
        return ("a jump to a label lands beyond the program: the ROM address was encoded on another width than the machine declares",
                "jump-target-misplaced")
    return None


def source_of(inst):
    w = inst["what"]
    if w.startswith("S "):
        return w[2:].replace("\\n", "\n") + "\n"
    if inst["kind"].startswith("bondgo:") and w.split()[0] in BONDGO_PROGS:
        opts = " ".join("-" + o for o in inst["kind"].split(":", 1)[1].split("+"))
        return "// bondgo %s -input-file %s -register-size %s -save-bondmachine bm.json\n" % (opts, w.split()[0], w.split("=")[-1]) + BONDGO_PROGS[w.split()[0]]
    if inst["kind"].startswith("bmqsim:") and inst["kind"].split(":")[2][:-1].isdigit():
        n = int(inst["kind"].split(":")[2][:-1])
        qb = ",".join("q%d" % i for i in range(n))
        return ("; bmqsim -build-matrix-seq-hardcoded -hw-flavor %s -save-basm out.basm circ.bmq   (then basm on out.basm)\n" % inst["kind"].split(":")[1]
                + "%block code1 .sequential\n\tqbits\t" + qb + "\n\tzero\t" + qb + "\n\th\tq0\n"
                + "".join("\tcx\tq%d, q%d\n" % (i - 1, i) for i in range(1, n)) + "%endblock\n\n%meta bmdef global main:code1\n")
    return None


def front_end_files(rep, thorough):
    """runs the real neuralbond / bmqsim CLIs, returns [(kind, [files])]"""
    d = vlib.scratch_dir("c16" + vlib._REPO_TAG)
    sets = []
    later = []   # the non-default register sizes: after the default sets (the first two sets are also run with dyn+minws)
    notes = []
    lib = sorted(os.path.join(vlib.REPO, "library", "neurons", f) for f in os.listdir(os.path.join(vlib.REPO, "library", "neurons"))
                 if f.startswith("rom-") and f.endswith(".basm"))
    try:
        nb = vlib.go_build_repo("neuralbond")
        nets = ["net-testsmall.json"] + (["net-testnormal.json"] if thorough else [])
        # (net, io mode, register size): the sizes the tool's -register-size option takes; with the float32 neurons of the
        # library 16 bits are too few (basm must then REJECT the source: counted as rejected, not as a failure)
        runs = [(net, iom, "32") for net in nets for iom in (["async", "sync"] if thorough else ["async"])]
        runs += [("net-testsmall.json", "async", "64")] + ([("net-testsmall.json", "sync", "64"), ("net-testsmall.json", "async", "16")] if thorough else [])
        for net, iom, rs in runs:
                cfg = os.path.join(d, "nbcfg.json")
                open(cfg, "w").write('{"Params":{"expprec":"4"}}')
                outf = os.path.join(d, "nb-%s-%s-%s.basm" % (net.replace(".json", ""), iom, rs))
                if os.path.exists(outf):
                    os.remove(outf)
                rc, so, se = vlib.run([nb, "-net-file", os.path.join(vlib.REPO, "cmd", "neuralbond", net), "-neuron-lib-path",
                                       os.path.join(vlib.REPO, "library", "neurons"), "-save-basm", outf, "-register-size", rs,
                                       "-io-mode", iom, "-config-file", cfg], timeout=120, cwd=d)
                if rc == 0 and os.path.exists(outf):
                    (sets if rs == "32" else later).append(("neuralbond:%s:%s%s" % (net, iom, "" if rs == "32" else ":rs" + rs), [outf] + lib))
                else:
                    notes.append("neuralbond on %s (register size %s) failed: %s" % (net, rs, (so + se)[-300:]))
    except vlib.BuildError as e:
        notes.append("neuralbond CLI does not build: %s" % str(e)[-300:])
    try:
        qs = vlib.go_build_repo("bmqsim")
        # every hardware flavour the tool lists, on circuits of 1..3 qubits (4 in the thorough tier): h on the first qubit
        # and a chain of cx; the adder tree of the addtree flavour gets a level per qubit
        rc, so, se = vlib.run([qs, "-build-matrix-seq-hardcoded", "-hw-flavor-list", os.path.join(vlib.REPO, "cmd", "bmqsim", "program.bmq")],
                              timeout=60, cwd=d)
        flavors = [l.strip() for l in (so + se).splitlines() if l.strip().startswith("seq_")] or \
                  ["seq_hardcoded_real", "seq_hardcoded_complex", "seq_hardcoded_addtree_complex"]
        for n in ([1, 2, 3, 4] if thorough else [1, 2, 3]):
            qb = ",".join("q%d" % i for i in range(n))
            prog = os.path.join(d, "circ%d.bmq" % n)
            open(prog, "w").write("%block code1 .sequential\n\tqbits\t" + qb + "\n\tzero\t" + qb + "\n\th\tq0\n"
                                  + "".join("\tcx\tq%d, q%d\n" % (i - 1, i) for i in range(1, n)) + "%endblock\n\n%meta bmdef global main:code1\n")
            for fl in sorted(flavors):
                if fl != "seq_hardcoded_addtree_complex" and (n == 4 or (n == 3 and not thorough)):
                    continue   # (quick tier: the third qubit only for the flavour whose wiring grows a tree level with it)
                outf = os.path.join(d, "qs-%s-%d.basm" % (fl, n))
                if os.path.exists(outf):
                    os.remove(outf)
                rc, so, se = vlib.run([qs, "-build-matrix-seq-hardcoded", "-hw-flavor", fl, "-save-basm", outf, prog], timeout=300, cwd=d)
                if rc == 0 and os.path.exists(outf):
                    sets.append(("bmqsim:%s:%dq" % (fl, n), [outf]))
                else:
                    notes.append("bmqsim flavor %s on %d qubits failed: %s" % (fl, n, (so + se)[-300:]))
    except vlib.BuildError as e:
        notes.append("bmqsim CLI does not build: %s" % str(e)[-300:])
    return sets + later, notes


BONDGO_PROGS = {
    "pipe2.go": """package main

import (
	"bondgo"
)

func worker(a chan uint8, b chan uint8) {
	var v uint8
	for {
		v = <-a
		v++
		b <- v
	}
}

func main() {
	var p0 bondgo.Input
	var q0 bondgo.Output
	var x uint8
	var a chan uint8
	var b chan uint8
	p0 = bondgo.Make(bondgo.Input, 3)
	q0 = bondgo.Make(bondgo.Output, 5)
	go worker(a, b)
	for {
		x = bondgo.IORead(p0)
		a <- x
		x = <-b
		bondgo.IOWrite(q0, x)
	}
}
""",
    "pipe3.go": """package main

import (
	"bondgo"
)

func stage(in chan uint8, out chan uint8) {
	var v uint8
	for {
		v = <-in
		v = v + 3
		out <- v
	}
}

func main() {
	var p0 bondgo.Input
	var q0 bondgo.Output
	var q1 bondgo.Output
	var x uint8
	var c1 chan uint8
	var c2 chan uint8
	var c3 chan uint8
	p0 = bondgo.Make(bondgo.Input, 3)
	q0 = bondgo.Make(bondgo.Output, 5)
	q1 = bondgo.Make(bondgo.Output, 6)
	go stage(c1, c2)
	go stage(c2, c3)
	for {
		x = bondgo.IORead(p0)
		c1 <- x
		bondgo.IOWrite(q1, x)
		x = <-c3
		bondgo.IOWrite(q0, x)
	}
}
""",
}

BONDGO_PROGS["scoped1.go"] = """package main

import (
	"bondgo"
)

func main() {
	var q0 bondgo.Output
	var total uint8
	q0 = bondgo.Make(bondgo.Output, 3)
	total = 2
	{
		var left uint8
		var right uint8
		left = total + 1
		right = left + 1
		total = right
	}
	var last uint8
	last = total + 1
	bondgo.IOWrite(q0, last)
}
"""

BONDGO_PROGS["scoped2.go"] = """package main

import (
	"bondgo"
)

func relay(in chan uint8, out chan uint8) {
	var got uint8
	var keep uint8
	got = <-in
	keep = got
	if got == 3 {
		var p uint8
		var q uint8
		var s uint8
		p = got + 1
		q = p + 2
		s = q + p
		keep = s
	} else {
		var t uint8
		t = got + 5
		keep = t
	}
	var fin uint8
	fin = keep + 1
	out <- fin
}

func main() {
	var p0 bondgo.Input
	var q0 bondgo.Output
	var x uint8
	var c1 chan uint8
	var c2 chan uint8
	p0 = bondgo.Make(bondgo.Input, 3)
	q0 = bondgo.Make(bondgo.Output, 5)
	go relay(c1, c2)
	x = bondgo.IORead(p0)
	{
		var y uint8
		{
			var z uint8
			z = x + 1
			y = z + 1
		}
		x = y
	}
	var w uint8
	w = x + 1
	c1 <- w
	w = <-c2
	bondgo.IOWrite(q0, w)
}
"""

BONDGO_PROGS["taps1.go"] = """package main

import (
	"bondgo"
)

func second() {
	var sin bondgo.Input
	var stap bondgo.Output
	var snext bondgo.Output
	var v uint8
	sin = bondgo.Make(bondgo.Input, 20)
	snext = bondgo.Make(bondgo.Output, 21)
	stap = bondgo.Make(bondgo.Output, 31)
	for {
		v = bondgo.IORead(sin)
		v = v + 2
		bondgo.IOWrite(snext, v)
		bondgo.IOWrite(stap, v)
	}
}

func third() {
	var tin bondgo.Input
	var tout bondgo.Output
	var v uint8
	tin = bondgo.Make(bondgo.Input, 21)
	tout = bondgo.Make(bondgo.Output, 32)
	for {
		v = bondgo.IORead(tin)
		v++
		bondgo.IOWrite(tout, v)
	}
}

func main() {
	var src bondgo.Input
	var feed bondgo.Output
	var tap bondgo.Output
	var x uint8
	src = bondgo.Make(bondgo.Input, 4)
	feed = bondgo.Make(bondgo.Output, 20)
	tap = bondgo.Make(bondgo.Output, 30)
	go second()
	go third()
	for {
		x = bondgo.IORead(src)
		bondgo.IOWrite(feed, x)
		bondgo.IOWrite(tap, x)
	}
}
"""

BONDGO_PROGS["taps2.go"] = """package main

import (
	"bondgo"
)

func second() {
	var sin bondgo.Input
	var stap bondgo.Output
	var snext bondgo.Output
	var v uint8
	sin = bondgo.Make(bondgo.Input, 20)
	stap = bondgo.Make(bondgo.Output, 31)
	snext = bondgo.Make(bondgo.Output, 21)
	for {
		v = bondgo.IORead(sin)
		v = v + 2
		bondgo.IOWrite(snext, v)
		bondgo.IOWrite(stap, v)
	}
}

func third() {
	var tin bondgo.Input
	var tout bondgo.Output
	var v uint8
	tin = bondgo.Make(bondgo.Input, 21)
	tout = bondgo.Make(bondgo.Output, 32)
	for {
		v = bondgo.IORead(tin)
		v++
		bondgo.IOWrite(tout, v)
	}
}

func main() {
	var src bondgo.Input
	var feed bondgo.Output
	var tap bondgo.Output
	var x uint8
	src = bondgo.Make(bondgo.Input, 4)
	tap = bondgo.Make(bondgo.Output, 30)
	feed = bondgo.Make(bondgo.Output, 20)
	go second()
	go third()
	for {
		x = bondgo.IORead(src)
		bondgo.IOWrite(feed, x)
		bondgo.IOWrite(tap, x)
	}
}
"""

BMB_BASM = """%%meta bmdef global registersize:%d
%%section code .romtext iomode:async
	entry _start
_start:
	mov r0, i0
	inc r0
	mov o0, r0
	j _start
%%endsection
%%meta cpdef cpu romcode:code
%%meta ioatt in0 cp:bm, type:input, index:0
%%meta ioatt in0 cp:cpu, type:input, index:0
%%meta ioatt out0 cp:bm, type:output, index:0
%%meta ioatt out0 cp:cpu, type:output, index:0
"""


def bondgo_wiring(text):
    """what the IO declarations of a bondgo source ask for in plain -mpm mode: an Output and an Input made with the same id
    are one processor-to-processor bond; an Input id nobody writes is a machine input, an Output id nobody reads a machine
    output.  -> (inputs, outputs, processor bonds)"""
    import re
    ins = [int(x) for x in re.findall(r"bondgo\.Make\(bondgo\.Input,\s*(\d+)\)", text)]
    outs = [int(x) for x in re.findall(r"bondgo\.Make\(bondgo\.Output,\s*(\d+)\)", text)]
    ext_in = len({i for i in ins if i not in outs})
    ext_out = len({o for o in outs if o not in ins})
    internal = len([i for i in ins if i in outs])
    return ext_in, ext_out, internal


def saved_machines(rep, thorough):
    """front-ends that save a machine themselves (JSON): bondgo in its multi-processor modes and bmbuilder, with standard and
    non-standard register sizes.  -> [(kind, what, json path, [assembly file per processor])], notes.
    taps1/taps2: three goroutines chained through shared IO ids (an output and an input with the same id are one
    processor-to-processor bond), each stage with one more output that nobody reads (a machine output), the internal
    one declared first (taps1) or last (taps2).
    scoped1/scoped2: memory variables (names without the reg_ prefix live in RAM) local to bare nested blocks and to if/else
    branches, released and re-used across a power of two of RAM cells."""
    d = vlib.scratch_dir("c16" + vlib._REPO_TAG)
    res = []
    notes = []
    try:
        bg = vlib.go_build_repo("bondgo")
        for name, text in BONDGO_PROGS.items():
            open(os.path.join(d, name), "w").write(text)
        runs = [("pipe2.go", ["-mpm"], 8), ("pipe2.go", ["-mpm"], 12), ("pipe3.go", ["-mpm"], 24), ("scoped1.go", ["-mpm"], 12), ("scoped2.go", ["-mpm"], 8),
                ("taps1.go", ["-mpm"], 8), ("taps2.go", ["-mpm"], 8)]
        if thorough:
            runs += [("pipe3.go", ["-mpm"], rs) for rs in (8, 16, 32, 64, 7, 12, 33)] + [("pipe2.go", ["-mpm"], rs) for rs in (16, 32, 64, 24)]
            runs += [("pipe3.go", ["-mpm", "-cascading-io"], rs) for rs in (8, 12)]
            runs += [("taps1.go", ["-mpm"], rs) for rs in (12, 16)] + [("taps2.go", ["-mpm"], rs) for rs in (12, 16)]
            runs += [("scoped1.go", ["-mpm"], rs) for rs in (8, 24)] + [("scoped2.go", ["-mpm"], rs) for rs in (12, 24)]
        for prog, opts, rs in runs:
            # the programs are written with uint8; for the other standard sizes the compiler wants the matching basic type
            open(os.path.join(d, prog), "w").write(BONDGO_PROGS[prog].replace("uint8", "uint%d" % rs) if rs in (16, 32, 64) else BONDGO_PROGS[prog])
            outj = os.path.join(d, "bg-%s%s-%d.json" % (prog, "".join(opts), rs))
            asmp = outj[:-5] + "-asm"
            for f in [outj] + [os.path.join(d, x) for x in os.listdir(d) if x.startswith(os.path.basename(asmp) + "_")]:
                if os.path.exists(f):
                    os.remove(f)
            rc, so, se = vlib.run([bg, "-input-file", prog] + opts + ["-register-size", str(rs), "-save-bondmachine", outj,
                                   "-save-assembly", asmp], timeout=90, cwd=d)
            asms = []
            while os.path.exists("%s_%d" % (asmp, len(asms))):
                asms.append("%s_%d" % (asmp, len(asms)))
            if rc == 0 and os.path.exists(outj):
                claims = []
                if opts == ["-mpm"]:
                    # plain -mpm: the wiring follows from the declared IO ids alone.  With -cascading-io the tool adds a wiring
                    # of its own (and leaves ports open on the unchanged tree): no wiring claim is made there.
                    claims = ["pb", "xw=%d,%d,%d" % bondgo_wiring(BONDGO_PROGS[prog])]
                res.append(("bondgo:" + "+".join(o.lstrip("-") for o in opts), "%s register-size=%d" % (prog, rs), outj, claims + asms))
            else:
                notes.append("bondgo %s on %s with register size %d saved no machine: rc=%s %s" % (" ".join(opts), prog, rs, rc, (so + se)[-200:]))
        # the multi-abstract-assembly input: one assembly text per processor + the bonds
        maa = os.path.join(d, "maa.json")
        progs = ["clr r0\ni2r r0 i0\nr2o r0 o0", "clr r0\ni2r r0 i0\nr2o r0 o0\nr2o r0 o1"]
        json.dump({"ProcProgs": progs, "Bonds": ["i0,p0i0", "p0o0,p1i0", "p1o0,o0", "p1o1,o1"]}, open(maa, "w"))
        maa_asms = []
        for k, t in enumerate(progs):
            maa_asms.append(os.path.join(d, "maa-asm_%d" % k))
            open(maa_asms[-1], "w").write(t + "\n")
        for rs in ([16, 12] if not thorough else [8, 16, 32, 64, 12, 24]):
            outj = os.path.join(d, "bg-maa-%d.json" % rs)
            if os.path.exists(outj):
                os.remove(outj)
            rc, so, se = vlib.run([bg, "-multi-abstract-assembly-input", "-input-file", maa, "-register-size", str(rs), "-save-bondmachine", outj],
                                  timeout=90, cwd=d)
            if rc == 0 and os.path.exists(outj):
                res.append(("bondgo:multi-abstract-assembly", "maa.json register-size=%d" % rs, outj, ["pb", "xw=1,2,1"] + maa_asms))
            else:
                notes.append("bondgo -multi-abstract-assembly-input with register size %d saved no machine: rc=%s %s" % (rs, rc, (so + se)[-200:]))
    except vlib.BuildError as e:
        notes.append("bondgo CLI does not build: %s" % str(e)[-300:])
    try:
        bb = vlib.go_build_repo("bmbuilder")
        for rs in ([12] if not thorough else [8, 12, 32]):
            for nm in ("bba", "bbb"):
                open(os.path.join(d, "%s%d.basm" % (nm, rs)), "w").write(BMB_BASM % rs)
            bmb = os.path.join(d, "seq%d.bmb" % rs)
            open(bmb, "w").write("%%meta bmdef global registersize:%d, main:main\n%%block main .sequential\n"
                                 "\tl1: basmfiles:bba%d.basm, disabledynamicalmatching:1\n\tbasm\n"
                                 "\tl2: basmfiles:bbb%d.basm, disabledynamicalmatching:1\n\tbasm\n%%endblock\n" % (rs, rs, rs))
            outj = os.path.join(d, "bb-%d.json" % rs)
            if os.path.exists(outj):
                os.remove(outj)
            rc, so, se = vlib.run([bb, "-save-bondmachine", outj, bmb], timeout=90, cwd=d)
            if rc == 0 and os.path.exists(outj) and os.path.getsize(outj) > 10:
                res.append(("bmbuilder:sequential", "two basm machines of register size %d in a sequential block" % rs, outj, []))
            else:
                notes.append("bmbuilder (register size %d) saved no machine: rc=%s %s" % (rs, rc, (so + se)[-200:]))
    except vlib.BuildError as e:
        notes.append("bmbuilder CLI does not build: %s" % str(e)[-300:])
    return res, notes


def run(rep):
    thorough = rep.tier == "thorough"
    hbin = vlib.go_build("c16")
    pr = vlib.prove(PROP, MODULES, exes=[EXE], leanchecker=thorough)
    rep.add_proof(pr, "lake build BMV.Props.C16 && lake env lean <#audit_module BMV.Props.C16>"
                  + (" && lake env leanchecker BMV.Props.C16" if thorough else ""),
                  ["BMV.WfBM: the validator itself (hand written once against BMV.Arch.layout; the layout table is tied to procbuilder by C03)",
                   "harness/basmdump: canonical text of a bondmachine.Bondmachine; BMV.BasmText.parseBM reads it back",
                   "BMV.Isa as the meaning of 'the simulator does not fail' (tied to procbuilder.VM.Step by C01)"])
    rep.assumptions += [
        "wfbm_sim_safe is stated for processors over the opcode set BMV.Isa models without a data-dependent failure "
        "(nop rset inc dec clr add cpy mult j jz i2r i2rw r2o r2owa) and register sizes 8/16/32/64; for other opcodes the validator's "
        "verdict is per instance only",
        "assemble_wf / assemble_rejects_* are about the model assembler of the C05 subset; that the model assembler IS the real one "
        "is C05's exact structural tie",
        "basm runs with -disable-dynamical-matching (otherwise `mov reg, number` matches rset and the dynamic rsetsN family, "
        "outside the layout table); the dyn instances are reported separately",
    ]
    insts = []
    notes = []
    if os.path.exists(_oracle()):
        n = 2000 if thorough else 300
        _, model = run_pair(hbin, ["gen", str(n)])
        insts += instances(model)
        _, model = run_pair(hbin, ["lib", vlib.REPO, "nodyn"])
        insts += instances(model)
        # regressions: fixed sources of defects found through this check
        cdir = os.path.join(vlib.CORPUS, PROP)
        if os.path.isdir(cdir):
            for f in sorted(os.listdir(cdir)):
                if f.endswith(".basm"):
                    _, model = run_pair(hbin, ["text", os.path.join(cdir, f), "corpus:" + f[:-5]])
                    insts += instances(model)
        # the opcode registry itself + one source per high-level matcher pattern of every opcode (with and without the chooser)
        _, model = run_pair(hbin, ["ops"])
        insts += instances(model)
        sets, notes = front_end_files(rep, thorough)
        for kind, files in sets:
            # bmqsim builds its machines from matrices: every port of every processor it creates is wired (checked: `pb`)
            _, model = run_pair(hbin, ["files", kind, "nodyn", "pb" if kind.startswith("bmqsim:") else "-"] + files)
            insts += instances(model)
        for kind, files in sets[:2] if not thorough else sets:
            # the default (dynamic matching) configuration with the word-size chooser, in its own process
            _, model = run_pair(hbin, ["files", kind + ":dyn+minws", "dyn", "minws"] + files)
            insts += instances(model)
        saved, notes2 = saved_machines(rep, thorough)
        notes += notes2
        for kind, what, path, asms in saved:
            _, model = run_pair(hbin, ["json", kind, what, path] + asms)
            insts += instances(model)
    # ---- evidence ----
    by_fe = {}
    per_inst = []
    lib_skips = {}
    emitted = 0
    for i in insts:
        fe = i["kind"].split(":")[0]
        s = by_fe.setdefault(fe, {"instances": 0, "emitted": 0, "wf": 0, "ill_formed": 0, "unmodelled": 0, "rejected": 0, "rom_words": 0,
                                  "jump_target_beyond_program": 0})
        s["instances"] += 1
        if i["result"] == "ok":
            emitted += 1
            s["emitted"] += 1
            s["rom_words"] += i["words"]
            if i["cf"] is False:
                s["jump_target_beyond_program"] += 1
            if i["wf"]:
                s["wf"] += 1
            elif only_unmodelled(i):
                s["unmodelled"] += 1
            else:
                s["ill_formed"] += 1
        else:
            s["rejected"] += 1
        if fe == "lib":
            lib_skips[i["cls"] or "assembled"] = lib_skips.get(i["cls"] or "assembled", 0) + 1
        if fe != "gen":
            per_inst.append({"front_end": i["kind"], "input": i["what"][:200], "result": i["result"] + (" " + i["cls"] if i["cls"] else ""),
                             "wf": i["wf"], "reasons": i["reasons"], "unmodelled": i["unmodelled"], "processors": i["cps"], "rom_words": i["words"]})
    gen_ok = [i for i in insts if i["kind"].startswith("gen:") and i["result"] == "ok"]
    mustfail = [i for i in insts if i["mustfail"]]
    rep.coverage.update({
        "evaluations": len(insts),
        "distinct_nontrivial": len({(i["kind"], i["what"]) for i in insts if i["result"] == "ok"}),
        "rule": "one evaluation = one front-end run; non-trivial = a machine was emitted and validated by WfBM; distinct = distinct "
                "(front-end, input)",
        "samples": [{"front_end": i["kind"], "source": source_of(i), "wf": i["wf"], "rom_words": i["words"]} for i in gen_ok[:3]]
                   or [{"note": "no instance"}],
        "traces_validated_against_impl": emitted,
        "front_end_instances_checked": {"by_front_end": by_fe, "instances": per_inst[:140]},
        "input_distribution": {"generated_sources": len([i for i in insts if i["kind"].startswith("gen:")]),
                               "generated_kinds": _count(i["kind"] for i in insts if i["kind"].startswith("gen:")),
                               "unfit_sources": len(mustfail),
                               "unfit_rejected": len([i for i in mustfail if i["result"] == "err"]),
                               "library_files": len([i for i in insts if i["kind"].startswith("lib:")]),
                               "library_result_classes": lib_skips},
        "unmodelled": ["library *.basm files are fragments / templated sections without %meta bmdef/cpdef: none assembles standalone "
                       "(listed under front_end_instances_checked with the tool's error class); they are exercised through neuralbond",
                       "melbond: pkg/melbond does not compile on the unchanged tree; not run",
                       "bondgo's single-processor output (-save-machine) is a processor, not a BondMachine: not an instance of this property",
                       "dynamic opcode families (rsetsN, …) are outside BMV.Arch.layout: such machines get the verdict 'unmodelled'"] + notes,
    })
    names = REGISTRY.get("names", [])
    rep.coverage["static_opcodes"] = {
        "registered": len(names), "registered_twice": REGISTRY.get("dups", []),
        "in_the_opcode_list_of_some_emitted_machine": len(OPS_SEEN & set(names)),
        "never_emitted_in_this_run": sorted(set(names) - OPS_SEEN),
        "note": "an opcode is emitted by basm only through a high-level matcher pattern (HLAssemblerMatch); the ones never emitted have "
                "no pattern (or only one this run's synthesiser does not know: %s) or are produced by bondgo only" % (" ".join(REGISTRY.get("skipped", [])) or "-")}
    # ---- outcome ----
    bad = [(i, judge(i)) for i in insts if judge(i)]
    if REGISTRY.get("dups") and not bad:
        # (when a generated source uses the opcode, that instance is reported below, with its source)
        rep.violation({"property": PROP, "kind": "property-fails-on-impl", "tag": "opcode-registry-duplicate",
                       "why": "procbuilder.Allopcodes registers an opcode name twice: basm builds a processor's opcode list by scanning "
                              "that registry, so a program using it gets the name twice (and one more opcode bit than needed)",
                       "input": "procbuilder.Allopcodes", "source": None, "duplicates": REGISTRY["dups"]}, tag="opcode-registry-duplicate")
        return
    kfs = vlib.load_known_findings(PROP)
    reported = set()
    rest = []
    for i, (why, tag) in bad:
        hit = None
        for kf in kfs:
            sig = kf.get("signature", {})
            if sig.get("tag") == tag and i["kind"].startswith(sig.get("kind_prefix", "")):
                hit = kf
                break
        if hit:
            if hit["id"] not in reported:
                reported.add(hit["id"])
                rep.known("%s (e.g. %s)" % (hit["what_fails"], i["kind"]))
        else:
            rest.append((i, why, tag))
    if rest:
        i, why, tag = rest[0]
        rep.violation({"property": PROP, "kind": "property-fails-on-impl", "tag": tag, "why": why, "front_end": i["kind"],
                       "input": i["what"], "source": source_of(i), "result": i["result"] + " " + i["cls"], "reasons": i["reasons"],
                       "opcode_registry_duplicates": REGISTRY.get("dups", []),
                       "other_failing_instances": len(rest) - 1}, tag=tag)
    elif not pr["ok"] or not insts:
        broken = list(pr["broken"]) or ["no front-end instance was evaluated"]
        rep.violation({"property": PROP, "kind": "proof-broken", "broken": broken,
                       "searched": "WfBM evaluated on %d emitted machines: all well formed" % emitted}, no_failing_input=True)


def _count(it):
    d = {}
    for x in it:
        d[x] = d.get(x, 0) + 1
    return d


def replay(rep, path):
    hbin = vlib.go_build("c16")
    vlib.lake_build([EXE])
    obj = json.load(open(path))
    src = obj.get("source")
    if not src or not str(obj.get("front_end", "gen:")).startswith(("gen:", "text", "ops:", "corpus:")):
        rep.coverage.update({"evaluations": 1, "distinct_nontrivial": 1, "rule": "replay of " + path + " (no source text stored: front-end instance, re-run the check)",
                             "samples": [obj.get("input")]})
        return
    d = vlib.scratch_dir("c16" + vlib._REPO_TAG)
    f = os.path.join(d, "replay.basm")
    open(f, "w").write(src)
    _, model = run_pair(hbin, ["text", f])
    insts = instances(model)
    for i in insts:
        i["mustfail"] = bool(obj.get("tag", "").startswith("unfit"))
    rep.coverage.update({"evaluations": len(insts), "distinct_nontrivial": len(insts), "rule": "replay of " + path, "samples": [src]})
    for i in insts:
        j = judge(i)
        if j:
            rep.violation({"property": PROP, "kind": "property-fails-on-impl", "tag": j[1], "why": j[0], "source": src,
                           "result": i["result"] + " " + i["cls"], "reasons": i["reasons"]}, tag=j[1])
