"""C17 — finished simulations leave no workers behind.   (claimed level: partial)

proof:          lean/BMV/Props/C17.lean — lifecycle of the worker goroutines (BMV.Lifecycle) under an
                arbitrary schedule: with an exit path nothing outlives a shutdown and the workers' own
                moves terminate (live_after_runs*, workers_terminate, live_after_seq_calls); without
                one every creation site grows by exactly the `go` statements executed
                (leak_without_exit*).
regenerated:    harness/cmd/c17 `extract` (go/ast) lists every `go` statement of the anchored files, the
                exit path of the spawned function and the Shutdown call of every launching function
                into lean/BMV/Gen/GoStmts.lean; obligations gostmts_match_sites, launchers_match,
                tree_regime are re-checked by the kernel against it.
correspondence: harness/cmd/c17 `run` executes batches of n = 1, 10, 100 sequential / concurrent
                SinglePipelineSimulate, Fitness_default, raw VM and bmreqs / basm uses on real
                machines and measures the goroutine profile per creation site after a settle period;
                lean/Oracle/C17.lean replays the same batches as schedules on the model (configured
                from the regenerated table) and prints the model's growth per site; every number is
                compared.  Any goroutine left behind is a concrete failing input of the property.
"""
import json
import os
import re
import vlib

LEVEL = "proof"
PROP = "C17"
MODULES = ["BMV.Props.C17"]
EXE = "oracle-c17"
GEN = os.path.join(vlib.LEAN, "BMV", "Gen", "GoStmts.lean")
KINDS = ["proc", "disp", "emu", "req", "pool"]
SIM_MODES = ("seq", "seqerr", "par", "fit", "raw", "seqdyn", "pardyn", "fiterr", "spserr", "seqdly", "pardly", "heapdly", "heapseq")
REGS = ("types", "matchers", "opcodes")   # process-wide registries: bmnumbers.AllTypes/AllMatchers, procbuilder.Allopcodes
POOL_DRIVER = os.path.join(vlib.HARNESS, "cmd", "c17", "simfinetune_driver_test.go.txt")
CALIBRATION = ("reqhold", "reqrelease")   # the harness itself keeps servers open, then closes them

# known findings this check can recognise (listed in /verif/known_findings.json by the integrator)
KF_SIM = "C17-sim-workers"
KF_BASM = "C17-basm-reqserver"


def _oracle():
    return os.path.join(vlib.LEAN, ".lake", "build", "bin", EXE)


def kvs(line):
    d = {}
    for f in line.split()[1:]:
        if "=" in f:
            k, v = f.split("=", 1)
            d[k] = v
    return d


def parse(impl_text, model_text):
    """-> (cfg dict, list of batch dicts {spec..., obs{}, model{} or None, ok})"""
    batches = {}
    order = []
    errors = []
    for l in impl_text.splitlines():
        if l.startswith("B "):
            d = kvs(l)
            batches[d["id"]] = {"b": d, "obs": None, "model": None, "line": l}
            order.append(d["id"])
        elif l.startswith("M "):
            d = kvs(l)
            if d["id"] in batches:
                batches[d["id"]]["obs"] = d
        elif l.startswith("E "):
            errors.append(l)
    cfg = {}
    for l in model_text.splitlines():
        if l.startswith("CFG "):
            cfg = kvs(l)
        elif l.startswith("X "):
            d = kvs(l)
            if d["id"] in batches:
                batches[d["id"]]["model"] = d
    return cfg, [batches[i] for i in order], errors


def spec_of(b):
    d = b["b"]
    if d["mode"] == "pool":
        return "pool,%s:%s:%s:%s:%s:%s:%s" % (d["W"], d["n"], d["P"], d["R"], d.get("X", "0"), d.get("D", "0"), d.get("S", "0"))
    mach = d.get("mach", "-")
    if d["mode"] not in SIM_MODES:
        mach = "-"
    dt = ("," + d["dt"]) if d.get("dt", "-") != "-" else ""
    return "%s,%s,%s,%s%s" % (d["mode"], d["n"], max(1, int(d.get("k", "1"))), mach, dt)


def growth(b):
    o = b["obs"]
    g = {k: int(o[k]) for k in KINDS}
    g["other"] = int(o["other"])
    if "heapgrow" in o:
        # retained simulator state: live heap (after GC) grown over the n measured simulations by more than
        # max(512 KiB, 100 bytes per simulation); the unchanged tree stays around 30-60 KiB for n = 6000
        hgrow, n_ = int(o["heapgrow"]), int(b["b"]["n"])
        g["heap:retained-bytes"] = hgrow if hgrow > max(512 * 1024, 100 * n_) else 0
    if b["b"]["mode"] in SIM_MODES:   # (an assembly may legitimately register new dynamic opcodes)
        for r in REGS:   # retained simulator state: entries added to the process-wide registries
            if r in o:
                g["registry:" + r] = int(o[r])
    return g


def judge(cfg, b, listed):
    """classify one measured batch: returns (status, text)
    status: ok | calibration | leak | known:<id> | tie"""
    d, o, m = b["b"], b["obs"], b["model"]
    mode, n, P = d["mode"], int(d["n"]), int(d["P"])
    g = growth(b)
    tie_ok = m is not None and all(int(m[k]) == g[k] for k in KINDS) and g["other"] == 0
    if mode in CALIBRATION:
        return ("calibration" if tie_ok else "tie"), ""
    leaked = {k: v for k, v in g.items() if v > 0}
    if leaked:
        nthings = sum(v for k_, v in leaked.items() if not k_.startswith("heap:"))
        what = "%s n=%s P=%s%s leaves %s behind (%s)" % (
            mode, n, P, (" Workers=%s" % d["W"]) if mode == "pool" else "",
            ("%d goroutines / registry entries" % nthings) if nthings else "retained heap",
            ", ".join("%s:+%d" % kv for kv in sorted(leaked.items())))
        if (mode in SIM_MODES and set(leaked) <= {"proc", "disp"} and g["proc"] == n * P and g["disp"] == n
                and cfg.get("proc") == "0" and cfg.get("disp") == "0" and KF_SIM in listed):
            return "known:" + KF_SIM, what
        if (mode == "basm" and set(leaked) == {"req"} and g["req"] == n and d.get("shut") == "0"
                and KF_BASM in listed):
            return "known:" + KF_BASM, what
        return "leak", what
    if not tie_ok:
        return "tie", ""
    if o.get("ok") != "1":
        return "tie", "result-check"
    return "ok", ""


def run_harness(hbin, args, timeout):
    rc, impl, err = vlib.run([hbin] + args, timeout=timeout, env=vlib.goenv())
    if rc != 0:
        raise RuntimeError("harness failed rc=%s: %s" % (rc, err[-2000:]))
    model = ""
    if os.path.exists(_oracle()):
        rc2, model, err2 = vlib.run([_oracle()], input_bytes=impl.encode(), timeout=timeout)
        if rc2 != 0:
            raise RuntimeError("oracle failed rc=%s: %s" % (rc2, err2[-2000:]))
    return impl, model


def build_pool_driver():
    """cmd/simfinetune is package main: compile our driver into it as a test file through a build overlay
    (nothing is written into the repository); returns the test binary"""
    os.makedirs(vlib.BIN, exist_ok=True)
    out = os.path.join(vlib.BIN, "simfinetune-c17.test")
    ov = os.path.join(vlib.BIN, "simfinetune-c17.overlay.json")
    json.dump({"Replace": {os.path.join(vlib.REPO, "cmd", "simfinetune", "zz_verif_c17_test.go"): POOL_DRIVER}},
              open(ov, "w"))
    with vlib.Lock("go"):
        if os.path.exists(out):
            os.remove(out)
        rc, so, se = vlib.run(["go", "test", "-c", "-vet=off", "-tags", "verif", "-overlay", ov, "-o", out,
                               "./cmd/simfinetune"], cwd=vlib.REPO, env=vlib.goenv(), timeout=900)
    if rc != 0 or not os.path.exists(out):
        raise vlib.BuildError("go test -c of cmd/simfinetune with the C17 driver failed:\n%s%s" % (so, se))
    return out


def run_pool(pbin, spec, timeout=600):
    """spec: W:n:P:R,...  -> (impl text, model text)"""
    env = vlib.goenv()
    env["VERIF_C17_POOL"] = spec
    rc, so, se = vlib.run([pbin, "-test.run", "TestVerifC17Pool", "-test.timeout", "%ds" % timeout],
                          timeout=timeout + 30, env=env, cwd=vlib.scratch_dir("c17" + vlib._REPO_TAG))
    impl = "".join(l + "\n" for l in so.splitlines() if l.startswith(("B ", "M ")))
    if not impl:
        raise RuntimeError("simfinetune driver printed nothing rc=%s: %s" % (rc, (so + se)[-2000:]))
    model = ""
    if os.path.exists(_oracle()):
        rc2, model, err2 = vlib.run([_oracle()], input_bytes=impl.encode(), timeout=300)
        if rc2 != 0:
            raise RuntimeError("oracle failed rc=%s: %s" % (rc2, err2[-2000:]))
    return impl, model


def pool_spec(seed, thorough):
    """worker counts 4, 1, 0 and a negative one; 1 and 10 (thorough: 100) evaluations"""
    import random
    r = random.Random(seed * 7919 + 17)
    ns = [1, 10, 100] if thorough else [1, 10]
    out = []
    for W in (4, 1, 0, -r.randint(1, 5)):
        for n in ns:
            out.append("%d:%d:%d:%d" % (W, n, r.randint(1, 3), r.randint(1, 4)))
    # an outputs file longer than the inputs file, and an empty inputs file (a shorter outputs file or a
    # malformed record panic / hang FitnessFunction on the unchanged tree: not part of the batches)
    for W in (1, 4):
        out.append("%d:%d:%d:%d:%d" % (W, 5, r.randint(1, 2), r.randint(1, 4), r.randint(1, 3)))
        out.append("%d:%d:%d:0:%d" % (W, 3, r.randint(1, 2), r.randint(0, 2)))
    # FitnessEnv.Debug (simfinetune -d): the progress output must not leave anything behind either
    for W in (1, 4, 0):
        out.append("%d:%d:%d:%d:0:1" % (W, 5, r.randint(1, 2), r.randint(1, 3)))
    # a candidate whose delay table makes the (single) record simulate for about 7 s of wall clock: whatever
    # the evaluation does with such a record, nothing may be left once the simulation has finished
    out.append("1:1:1:1:0:0:7")
    return ",".join(out)


def regenerate(hbin):
    rc, gen, err = vlib.run([hbin, "extract", vlib.REPO], timeout=120, env=vlib.goenv())
    if rc != 0 or "def goStmts" not in gen:
        raise vlib.BuildError("go/ast extractor failed on %s: %s" % (vlib.REPO, err[-2000:]))
    old = open(GEN).read() if os.path.exists(GEN) else None
    if old != gen:
        open(GEN, "w").write(gen)
    return gen


def corpus_specs():
    d = os.path.join(vlib.CORPUS, PROP)
    specs = []
    if os.path.isdir(d):
        for f in sorted(os.listdir(d)):
            if f.endswith(".txt"):
                for l in open(os.path.join(d, f)):
                    l = l.strip()
                    if l and not l.startswith("#"):
                        specs.append(l)
    return specs


def shrink(hbin, b, cfg, listed):
    """smaller batches of the same mode that still leave goroutines behind"""
    d = b["b"]
    mode = d["mode"]
    cands = []
    if mode.startswith("heap"):
        return b, spec_of(b), judge(cfg, b, listed)[1]   # growth per simulation: the batch size is the input
    if mode == "pool":
        try:
            impl, model = run_pool(build_pool_driver(), "%s:1:1:%s:%s:%s:%s" % (d["W"], min(1, int(d["R"])), d.get("X", "0"), d.get("D", "0"), d.get("S", "0")))
            _, bs, _ = parse(impl, model)
            if bs and bs[0]["obs"] is not None and judge(cfg, bs[0], listed)[0] == "leak":
                return bs[0], spec_of(bs[0]), judge(cfg, bs[0], listed)[1]
        except (RuntimeError, vlib.BuildError):
            pass
        return b, spec_of(b), judge(cfg, b, listed)[1]
    if mode in SIM_MODES:
        mach0 = d.get("mach", "")
        if ":empty" in mach0 or ":noreg" in mach0:
            # a spare processor that cannot be initialised, behind the only working one
            kind = "empty" if ":empty" in mach0 else "noreg"
            cands.append("%s,1,1,chain:P1:r8:incs.0:%s1" % (mode, kind))
        elif ":cmd" in mach0:
            cands.append("%s,1,1,chain:P1:r8:incs.0:cmd%s" % (mode, "exec" if ":cmdexec" in mach0 else "list"))
        elif ":fail" not in mach0:
            cands.append("%s,1,1,chain:P1:r8:incs.0" % mode)
        else:
            # which workers are stranded depends on the order in which they report: several failing
            # processors and the batch's own n keep the reproduction likely
            cands.append("%s,%s,%s,chain:P1:r8:incs.0:fail3" % (mode, d["n"], max(1, int(d.get("k", "1")))))
        cands.append("%s,1,1,%s" % (mode, d.get("mach", "-")))
        if d.get("dt", "-") != "-":
            cands = [c + "," + d["dt"] for c in cands]
    else:
        cands.append("%s,1,1,-" % mode)
    for spec in cands:
        try:
            impl, model = run_harness(hbin, ["replay", spec], 300)
        except RuntimeError:
            continue
        _, bs, _ = parse(impl, model)
        if bs and bs[0]["obs"] is not None:
            st, what = judge(cfg, bs[0], listed)
            if st == "leak":
                return bs[0], spec, what
    return b, spec_of(b), judge(cfg, b, listed)[1]


def run(rep):
    thorough = rep.tier == "thorough"
    hbin = vlib.go_build("c17")
    gen = regenerate(hbin)
    pr = vlib.prove(PROP, MODULES, exes=[EXE], leanchecker=thorough)
    rep.add_proof(pr, "lake build BMV.Props.C17 oracle-c17 && lake env lean <#audit_module BMV.Props.C17>"
                  + (" && lake env leanchecker BMV.Props.C17" if thorough else ""),
                  ["BMV.Lifecycle is a hand-written model of the worker loops of pkg/bondmachine/vm.go, "
                   "pkg/bmreqs/engine.go and cmd/simfinetune; tied by the regenerated go-statement table and by "
                   "the per-site goroutine counts",
                   "harness/cmd/c17/extract.go (go/ast: `go` statements, syntactic exit-path test = a return "
                   "statement inside the worker's endless loop, Shutdown call in the launching function)",
                   "runtime/pprof goroutine profile (debug=2) as the observation of live goroutines; the settle "
                   "period (goroutine count stable for 40 polls) as the observation of quiescence"])
    rep.assumptions += [
        "PARTIAL: that a goroutine is live or gone is runtime truth; it is observed (goroutine profile per "
        "creation site after a settle period), not proved. The theorems are about the lifecycle state machine.",
        "the exit-path test of the extractor is syntactic (a `return` inside the endless loop of the spawned "
        "function); that the return is reachable exactly after the shutdown is checked only dynamically",
        "emulator drivers (EmuDriver.Run, E > 0) are in the model and in the static table but not exercised "
        "dynamically (no driver can run headless); retained channels/heap are not measured, only goroutines",
        "shutdown is assumed to happen between steps (no token outstanding); Close/Shutdown called twice is "
        "outside the model (close of a closed channel panics in Go)",
    ]
    listed = {f.get("id") for f in vlib.load_known_findings(PROP)}

    impl_all, batches, errors = "", [], []
    cfg = {}
    # corpus first
    pool_corpus = [sp[5:] for sp in corpus_specs() if sp.startswith("pool,")]
    for spec in corpus_specs():
        if spec.startswith("pool,"):
            continue   # run with the simfinetune driver below
        impl, model = run_harness(hbin, ["replay", spec], 600)
        c, bs, es = parse(impl, model)
        cfg = c or cfg
        batches += bs
        errors += es
    impl, model = run_harness(hbin, ["run", rep.tier], 2400 if thorough else 600)
    c, bs, es = parse(impl, model)
    cfg = c or cfg
    batches += bs
    errors += es
    # cmd/simfinetune's worker pool (FitnessFunction), worker counts 4 / 1 / 0 / negative
    pbin = build_pool_driver()
    impl, model = run_pool(pbin, ",".join(pool_corpus + [pool_spec(rep.seed, thorough)]), 1200 if thorough else 300)
    c, bs, es = parse(impl, model)
    batches += bs
    errors += es

    stats = {"batches": 0, "calls": 0, "by_mode": {}, "goroutines_left": 0, "known": 0}
    distinct = set()
    leaks, ties, known = [], [], {}
    samples = []
    for b in batches:
        if b["obs"] is None:
            ties.append((b, "no measurement"))
            continue
        d = b["b"]
        stats["batches"] += 1
        stats["calls"] += int(d["n"]) * (int(d["R"]) if d["mode"] == "pool" else 1)
        stats["by_mode"][d["mode"]] = stats["by_mode"].get(d["mode"], 0) + 1
        if int(d["n"]) > 0 or d["mode"] in CALIBRATION:
            distinct.add((d["mode"], d["n"], d.get("k"), d.get("mach")))
        st, what = judge(cfg, b, listed)
        g = growth(b)
        stats["goroutines_left"] += sum(v for v in g.values() if v > 0) if d["mode"] not in CALIBRATION else 0
        if len(samples) < 6:
            samples.append({"batch": b["line"], "observed": {k: g[k] for k in g},
                            "model": {k: int(b["model"][k]) for k in KINDS} if b["model"] else None,
                            "verdict": st})
        if st == "leak":
            leaks.append((b, what))
        elif st == "tie":
            ties.append((b, what))
        elif st.startswith("known:"):
            known.setdefault(st[6:], []).append(what)
            stats["known"] += 1
    for e in errors:
        ties.append((None, e))

    rep.coverage.update({
        "evaluations": stats["calls"],
        "distinct_nontrivial": len(distinct),
        "rule": "seeded batches (VERIF_SEED) of n in {1,10,100[,1000]} sequential and concurrent "
                "SinglePipelineSimulate calls, Fitness_default, raw VM launch/step/shutdown, bmreqs and basm "
                "instances on generated chain machines (1..4 processors, 8/16/32 bit), the same on machines with "
                "1..3 extra processors whose every step fails (addf16 at 8/32 bit), on machines with a spare processor that "
                "cannot be initialised (empty program / no registers) at a random index, on machines whose cores list / execute "
                "the command-channel opcodes (r2v k2r t2r), simulations showing a value in a "
                "dynamic number type (fps/fxps/lqs; process-wide registry sizes observed around every batch), and cmd/simfinetune's "
                "FitnessFunction worker pool with Workers in {4, 1, 0, negative}; evaluations = simulation calls; "
                "non-trivial = a batch that started at least one worker; distinct = distinct (mode, n, k, machine)",
        "samples": samples or [{"note": "no batch ran"}],
        "traces_validated_against_impl": sum(1 for b in batches if b["obs"] is not None and b["model"] is not None),
        "input_distribution": stats,
        "tree_configuration": cfg,
        "go_statements": [l.strip() for l in gen.splitlines() if l.strip().startswith("⟨") or l.strip().startswith("(\"")],
        "unmodelled": ["EmuDriver.Run goroutines (E > 0) dynamically", "heap / channel retention",
                       "cmd/bondmachine's process-lifetime VMs (not anchored)"],
    })

    for kid, whats in sorted(known.items()):
        rep.known("%s: %s [%d batches, e.g. %s]" % (
            kid, "simulation workers have no exit path" if kid == KF_SIM else "BasmInstance never closes its bmreqs server",
            len(whats), whats[0]))

    if leaks:
        # the property's own quantifier (simulation calls) first, then the smallest batch
        leaks.sort(key=lambda x: (x[0]["b"]["mode"] not in SIM_MODES + ("pool",), int(x[0]["b"]["n"]), int(x[0]["b"]["P"])))
        b, spec, what = shrink(hbin, leaks[0][0], cfg, listed)
        g_ = growth(b)
        only_reg = not any(v > 0 for k, v in g_.items() if not k.startswith(("registry:", "heap:")))
        rep.violation({"property": PROP, "kind": "retained-state-left-behind" if only_reg else "goroutines-left-behind",
                       "what": what, "replay_spec": spec, "batch": b["line"],
                       "observed": growth(b), "model": b["model"], "tree_configuration": cfg,
                       "all_leaking_batches": [w for _, w in leaks][:12],
                       "broken_obligations": pr["broken"],
                       "replay": "python3 tools/check.py C17 --replay <this file>"})
    elif ties or not pr["ok"]:
        broken = list(pr["broken"])
        detail = None
        if ties:
            b, why = ties[0]
            detail = {"batch": b["line"] if b else None, "observed": b["obs"] if b else None,
                      "model": b["model"] if b else None, "why": why}
            broken.append("correspondence BMV.Lifecycle vs goroutine profile")
        rep.violation({"property": PROP, "kind": "proof-or-correspondence-broken", "broken": broken,
                       "first_disagreement": detail, "tree_configuration": cfg,
                       "searched": "%d batches / %d calls measured: no goroutine left behind" % (
                           stats["batches"], stats["calls"])},
                      no_failing_input=True)


def replay(rep, path):
    hbin = vlib.go_build("c17")
    regenerate(hbin)
    vlib.lake_build([EXE])
    obj = json.load(open(path))
    spec = obj.get("replay_spec")
    if not spec:
        fd = obj.get("first_disagreement") or {}
        line = fd.get("batch") or ""
        d = kvs(line) if line else {}
        spec = "%s,%s,%s,%s" % (d.get("mode", "seq"), d.get("n", "1"), max(1, int(d.get("k", "1") or 1)),
                                d.get("mach", "chain:P1:r8:incs.0"))
    listed = {f.get("id") for f in vlib.load_known_findings(PROP)}
    pbin = build_pool_driver() if spec.startswith("pool,") else None
    # a leak that depends on the order in which the workers report may need a few attempts
    attempts = 8 if obj.get("kind") in ("goroutines-left-behind", "registry-entries-left-behind", "retained-state-left-behind") else 1
    for _ in range(attempts):
        if pbin:
            impl, model = run_pool(pbin, spec[5:], 900)
        else:
            impl, model = run_harness(hbin, ["replay", spec], 900)
        cfg, bs, es = parse(impl, model)
        if any(b["obs"] is not None and judge(cfg, b, listed)[0] == "leak" for b in bs):
            break
    rep.coverage.update({"evaluations": sum(int(b["b"]["n"]) for b in bs), "distinct_nontrivial": max(2, len(bs)),
                         "rule": "replay of " + path, "samples": [b["line"] for b in bs] or [spec]})
    for b in bs:
        if b["obs"] is None:
            continue
        st, what = judge(cfg, b, listed)
        if st == "leak":
            rep.violation({"property": PROP, "kind": "goroutines-left-behind", "what": what, "replay_spec": spec,
                           "batch": b["line"], "observed": growth(b), "model": b["model"]})
        elif st == "tie":
            rep.violation({"property": PROP, "kind": "correspondence", "replay_spec": spec, "batch": b["line"],
                           "observed": b["obs"], "model": b["model"]}, no_failing_input=True)
        elif st.startswith("known:"):
            rep.known("%s: %s" % (st[6:], what))
