"""C06 — mapping a fragment graph onto more or fewer processors keeps its result.

proof:          lean/BMV/Props/C06.lean — temp_fresh, collapse_seq, compose_correct (safety, under the
                explicit channel assumption Frag.Consistent), partition_irrelevant; the liveness half
                is refuted for the composer as it is (compose_live_counterexample).
correspondence: harness/cmd/c06 feeds generated .basm text (fragments + fidef/filinkdef/filinkatt +
                cpdef fragcollapse, several partitions of the SAME graph) to the real basm package
                in-process, reads the composed sections from the assembler's own debug dump (the dump
                after the fragmentComposer pass), the IO attach list, the disassembled programs and
                the bonds of the resulting machine, simulates it with bondmachine.VM under a 4-phase
                valid/recv environment, and lean/Oracle/C06.lean prints the same observables from
                BMV.Frag (secRes/ioAtt/bonds text, Net.run, evalOut).  Every line is compared.
"""
import json
import os
import subprocess

import vlib

LEVEL = "proof"
PROP = "C06"
MODULES = ["BMV.Props.C06"]
EXE = "oracle-c06"

KF_DEADLOCK = "C06-sync-crossing-deadlock"
KF_REARM = "C06-c04-rearm-on-fanout"

TEXT_KEYS = ("asm", "att", "bonds")


def _oracle():
    return os.path.join(vlib.LEAN, ".lake", "build", "bin", EXE)


# ------------------------------------------------------------------------------------ running

def run_harness_parallel(hbin, jobs, timeout):
    """jobs: list of (args, seed) -> list of stdout texts (same order)"""
    procs = []
    for args, seed in jobs:
        env = vlib.goenv()
        env["VERIF_SEED"] = str(seed)
        env.setdefault("GOGC", "400")
        env.setdefault("GOMEMLIMIT", "2GiB")
        procs.append(subprocess.Popen([hbin] + args, stdout=subprocess.PIPE, stderr=subprocess.DEVNULL, env=env))
    outs = []
    for p in procs:
        try:
            so, _ = p.communicate(timeout=timeout)
        except subprocess.TimeoutExpired:
            p.kill()
            so, _ = p.communicate()
            so += b"\nHARNESS-TIMEOUT\n"
        if p.returncode not in (0, None) and b"HARNESS-TIMEOUT" not in so:
            raise RuntimeError("harness failed rc=%s" % p.returncode)
        outs.append(so.decode("utf-8", "replace"))
    return outs


def run_oracle(text, timeout=900):
    rc, model, err = vlib.run([_oracle()], input_bytes=text.encode(), timeout=timeout)
    if rc != 0:
        raise RuntimeError("oracle failed rc=%s: %s" % (rc, err[-2000:]))
    return model


# ------------------------------------------------------------------------------------ comparing

def parse_stream(impl_text, model_text):
    """-> cases: list of dict(id, head(lines), kind, parts: list of dict(pid, spec, X{key:val}, M{key:val}))"""
    cases = []
    cur = None
    byid = {}
    for l in impl_text.splitlines():
        if l.startswith("CASE "):
            f = l.split()
            kind = "replay"
            for kv in f[2:]:
                if kv.startswith("kind="):
                    kind = kv[5:]
            cur = {"id": f[1], "head": [l], "kind": kind, "parts": [], "pidx": {}}
            cases.append(cur)
            byid[f[1]] = cur
        elif cur is None:
            continue
        elif l.startswith(("INST ", "LINK ", "INPUT", "PRUNE ", "CFIRST ")):
            cur["head"].append(l)
        elif l.startswith("PART "):
            f = l.split(" ", 2)
            p = {"pid": f[1], "spec": f[2] if len(f) > 2 else "", "X": {}, "M": {}}
            cur["parts"].append(p)
            cur["pidx"][f[1]] = p
        elif l.startswith("X "):
            f = l.split(" ", 4)
            c = byid.get(f[1])
            if c and f[2] in c["pidx"]:
                c["pidx"][f[2]]["X"][f[3]] = f[4] if len(f) > 4 else ""
    for l in model_text.splitlines():
        if l.startswith("M "):
            f = l.split(" ", 4)
            c = byid.get(f[1])
            if c and f[2] in c["pidx"]:
                c["pidx"][f[2]]["M"][f[3]] = f[4] if len(f) > 4 else ""
    return cases


def case_text(case, part=None):
    ls = list(case["head"])
    for p in case["parts"]:
        if part is None or p["pid"] == part["pid"]:
            ls.append("PART %s %s" % (p["pid"], p["spec"]))
    ls.append("END")
    return "\n".join(ls) + "\n"


def split_out(v):
    f = v.split(" ", 1)
    return f[0], (f[1] if len(f) > 1 else "")


def classify(case, p):
    """-> (cls, detail)
    cls: ok            property's hypotheses hold, real machine == eval == model
         outside       hypotheses do not hold (malformed stream): texts and behaviour agree with the model
         rejected      the tool rejected the input as the model says
         deadlock      hypotheses hold, model predicts a dead-lock, the real machine delivers nothing
         rearm         behaviour differs from the model AND the simulator showed C04's re-arm/stale signature
         property      hypotheses hold, real machine's outputs differ from eval, no C04 signature
         tie           a text or behaviour disagreement between model and tool that is none of the above
         modelself     the model's own operational run differs from eval (proof/model inconsistency)"""
    X, M = p["X"], p["M"]
    flags = M.get("flags", "")
    hyp = flags == "wf=1 ok=1"
    if "asm" not in X or "asm" not in M:
        return "tie", "missing asm line (impl=%r model=%r)" % (X.get("asm"), M.get("asm"))
    if X["asm"] != M["asm"]:
        return "tie", "asm: impl=%s model=%s" % (X["asm"], M["asm"])
    if X["asm"] != "ok":
        return "rejected", X["asm"]
    if X.get("dbgsame", "1").split(" ")[0] != "1":
        return "tie", "debug and plain assembly differ: " + X.get("dbgsame", "")
    tie = ""
    # a case written through pruned pass-through instances: pruning re-creates the attach records of the
    # rerouted links, so their position in the attach list (not their content) may differ from the
    # model's, which knows the graph without the pass-through: compared as a set
    pruned = any(l.startswith("PRUNE ") for l in case["head"])
    for k in sorted(set(list(X.keys()) + list(M.keys()))):
        if k in TEXT_KEYS or k.startswith("sec.") or k.startswith("prg."):
            if pruned and k == "att" and X.get(k) is not None and M.get(k) is not None and \
                    sorted(X[k].split(" | ")) == sorted(M[k].split(" | ")):
                continue
            if X.get(k) != M.get(k):
                tie = "%s: impl=%r model=%r" % (k, X.get(k), M.get(k))
                break
    temps = M.get("temps", "")
    if any(t.endswith(":0") for t in temps.split()):
        return "modelself", "temp_fresh evaluated false on " + temps
    xs, xv = split_out(X.get("out", "missing "))
    ms, mv = split_out(M.get("out", "missing "))
    ev = M.get("eval", "")
    hs = X.get("hs", "")
    c04 = ("rearm=0 stale=0" not in hs) and hs != ""
    if hyp and ms == "ok" and mv != ev:
        return "modelself", "Net.run=%s eval=%s" % (mv, ev)
    if hyp:
        # the property itself, evaluated on the implementation: outputs of the real machine vs eval(G)
        if xs == "ok" and xv == ev:
            cls, detail = "ok", ""
            if ms != "ok":
                tie = tie or "model predicts %s, the real machine delivers eval" % ms
        elif c04:
            cls, detail = "rearm", "impl=%s %s eval=%s model=%s [%s]" % (xs, xv, ev, ms, hs)
        elif xs == "deadlock" and ms == "deadlock" and not tie:
            cls, detail = "deadlock", "model and simulator both dead-lock"
        else:
            cls, detail = "property", "impl=%s %s eval=%s (model run: %s)" % (xs, xv, ev, ms)
    else:
        if xs == ms and (xs != "ok" or xv == mv):
            cls, detail = "outside", flags
        elif c04:
            cls, detail = "rearm", "impl=%s %s model=%s %s [%s]" % (xs, xv, ms, mv, hs)
        else:
            cls, detail = "tie", "out: impl=%s %s model=%s %s [%s]" % (xs, xv, ms, mv, hs)
    if tie:
        if cls in ("ok", "outside", "deadlock", "tie"):
            return "tie", tie
        return cls, detail + " ; text: " + tie
    return cls, detail


def n_cps(p):
    return len([c for c in p["spec"].split(";") if c])


def nontrivial(p):
    """a partition where the composer had something to decide: a collapsed list or several CPs"""
    return p["X"].get("asm") == "ok" and (n_cps(p) > 1 or ":" in p["spec"])


def analyse(cases, stats, found, distinct):
    for c in cases:
        okouts = set()
        for p in c["parts"]:
            cls, detail = classify(c, p)
            stats["partitions"] += 1
            stats["by_class"][cls] = stats["by_class"].get(cls, 0) + 1
            stats["by_kind"][c["kind"]] = stats["by_kind"].get(c["kind"], 0) + 1
            stats["by_cps"][str(n_cps(p))] = stats["by_cps"].get(str(n_cps(p)), 0) + 1
            nt = sum(1 for t in p["M"].get("temps", "").split() if "=" in t)
            if nt:
                stats["sections_with_temps"] += nt
            if nontrivial(p):
                distinct.add("|".join(v for k, v in sorted(p["X"].items()) if k.startswith("sec.")))
            if cls == "ok":
                okouts.add(p["X"]["out"])
            if cls in ("deadlock", "rearm", "property", "tie", "modelself"):
                found[cls].append((c, p, detail))
        if len(okouts) > 1:
            # cannot happen when every ok partition equals eval; kept as the direct metamorphic check
            found["property"].append((c, c["parts"][0], "partitions disagree pairwise: %s" % sorted(okouts)))
        stats["cases"] += 1
        ninst = sum(1 for l in c["head"] if l.startswith("INST "))
        stats["by_instances"][str(ninst)] = stats["by_instances"].get(str(ninst), 0) + 1


def smallest(items):
    return min(items, key=lambda t: (len(t[0]["head"]), n_cps(t[1]), t[0]["id"], t[1]["pid"]))


def corpus_files():
    d = os.path.join(vlib.CORPUS, PROP)
    if not os.path.isdir(d):
        return []
    return sorted(os.path.join(d, f) for f in os.listdir(d) if f.endswith(".txt"))


def report(rep, found, stats, listed):
    """turn the classified disagreements into KNOWN-FINDING / VIOLATION lines"""
    def replay_obj(kind, c, p, detail, extra=None):
        o = {"property": PROP, "kind": kind, "case": case_text(c, p), "partition": p["spec"],
             "detail": detail, "impl": p["X"], "model": p["M"],
             "replay": "python3 tools/check.py C06 --replay <this file>"}
        if extra:
            o.update(extra)
        return o

    if found["property"]:
        c, p, d = smallest(found["property"])
        rep.violation(replay_obj("property-fails-on-impl", c, p, d, {"others": len(found["property"]) - 1}))
    if found["deadlock"]:
        c, p, d = smallest(found["deadlock"])
        text = ("%s: composed network dead-locks (blocking `mov oK,r` emitted right after each instance, CPs "
                "exchange values in crossing orders); predicted by the model's blocking-channel semantics and "
                "observed in the simulator (no output in the tick budget) on %d partition(s), e.g. case %s "
                "partition %s; eval(G)=%s" % (KF_DEADLOCK, len(found["deadlock"]), c["id"], p["spec"],
                                              p["M"].get("eval", "")))
        if KF_DEADLOCK in listed:
            rep.known(text)
        else:
            rep.violation(replay_obj("property-fails-on-impl:deadlock", c, p, d,
                                     {"proposed_known_finding_id": KF_DEADLOCK, "others": len(found["deadlock"]) - 1}))
    if found["rearm"]:
        c, p, d = smallest(found["rearm"])
        text = ("%s: the simulator's C04 hand-shake defect (a consumer re-reads a port whose valid is still high "
                "because a slower consumer of the same producer has not acknowledged yet) changes the outputs of "
                "%d composed machine(s) with fan-out, e.g. case %s partition %s: %s"
                % (KF_REARM, len(found["rearm"]), c["id"], p["spec"], d))
        if KF_REARM in listed:
            rep.known(text)
        else:
            rep.violation(replay_obj("property-fails-on-impl:c04-rearm", c, p, d,
                                     {"proposed_known_finding_id": KF_REARM, "others": len(found["rearm"]) - 1}))
    return found["tie"] + found["modelself"]


def run(rep):
    thorough = rep.tier == "thorough"
    hbin = vlib.go_build("c06")
    pr = vlib.prove(PROP, MODULES, exes=[EXE], leanchecker=thorough)
    rep.add_proof(pr, "lake build BMV.Props.C06 && lake env lean <#audit_module BMV.Props.C06>"
                  + (" && lake env leanchecker BMV.Props.C06" if thorough else ""),
                  ["BMV.Frag is a hand-written model of pkg/basm fragmentcomposer.go, links.go, meta.go (fidef/"
                   "filinkatt/fragcollapse), pkg/bmline/transform.go (CheckArg/NextResource/ReplaceArg) and the ioatt "
                   "pairing of creatorbm.go; tied by correspondence only",
                   "channel assumption of compose_correct (Frag.Consistent): a bond delivers each value exactly once, "
                   "in order, to every consumer (C04's property; the Go simulator violates it on re-armed reads, "
                   "recognised by signature)",
                   "Frag.Net.run (operational blocking-channel interpreter used to predict dead-locks) is tied to the "
                   "simulator and to evalOut per case, not proved equivalent to the denotational semantics",
                   "the composed sections are read from the assembler's own debug dump (SetDebug) after the "
                   "fragmentComposer pass; a second assembly without debug must give the same machine"])
    rep.assumptions += [
        "fragments are straight-line integer code over rset/inc/dec/clr/add/cpy/mult on their own registers, "
        "register sizes 8/16/32, iomode sync (async IO is not a dataflow semantics)",
        "instances are numbered in a topological order of the graph (the tool looks instances up by name; the "
        "fidef order in the generated file is shuffled)",
        "one round = one value per BM input; the environment completes a 4-phase cycle per value",
        "a dead-lock is observed as 'no complete output within C06_MAXTICKS ticks' (default 4000)",
    ]
    listed = {f.get("id") for f in vlib.load_known_findings(PROP)}
    stats = {"cases": 0, "partitions": 0, "by_class": {}, "by_kind": {}, "by_cps": {}, "by_instances": {},
             "sections_with_temps": 0}
    found = {k: [] for k in ("deadlock", "rearm", "property", "tie", "modelself")}
    distinct = set()
    samples = []
    if os.path.exists(_oracle()) and pr["ok"]:
        # 1. corpus
        for f in corpus_files():
            impl = run_harness_parallel(hbin, [(["replay", f], rep.seed)], 600)[0]
            cases = parse_stream(impl, run_oracle(impl))
            analyse(cases, stats, found, distinct)
        # 2. generated graphs, several partitions each, in parallel harness processes
        procs, per = (6, 40) if thorough else (4, 9)
        jobs = [(["gen", str(per)] + (["thorough"] if thorough else []), rep.seed * 1000 + k) for k in range(procs)]
        outs = run_harness_parallel(hbin, jobs, 3000 if thorough else 600)
        for k, impl in enumerate(outs):
            # case ids are per process: make them unique
            impl = impl.replace("CASE g", "CASE j%dg" % k).replace("X g", "X j%dg" % k)
            if "HARNESS-TIMEOUT" in impl:
                rep.notes.append("harness process %d hit the time limit; its completed cases are used" % k)
            cases = parse_stream(impl, run_oracle(impl))
            analyse(cases, stats, found, distinct)
            for c in cases[:1]:
                p = c["parts"][-1]
                samples.append({"case": c["head"], "partition": p["spec"], "impl_out": p["X"].get("out"),
                                "eval": p["M"].get("eval"), "section0": p["X"].get("sec.0")})
    rep.coverage.update({
        "evaluations": stats["partitions"],
        "distinct_nontrivial": len(distinct),
        "rule": "corpus + seeded random DAGs of 2..6 instances (random well-behaved fragments reusing register "
                "names, fan-out inside and across CPs, shared BM inputs), partitions: all-separate (two CP orders), "
                "all-collapsed (two list orders), every set partition for <= 4 instances, random otherwise; every "
                "7th case malformed (non-topological list / unlinked input / two links into one input); "
                "non-trivial = accepted partition with a collapsed list or several CPs; distinct = distinct "
                "composed section texts",
        "samples": samples or [{"note": "correspondence did not run"}],
        "traces_validated_against_impl": stats["partitions"],
        "input_distribution": stats,
        "unmodelled": ["iomode async", "templated fragments / fragment parameters", "fragmentPruner (pruned:true)",
                       "fragmentAnalyzer/Optimizer (disabled passes)", "fragment bodies with labels, jumps, memory "
                       "or indirect register operands ([rN] is not seen by NextResource)",
                       "instances listed in two collapse lists or in none"],
    })
    broken = report(rep, found, stats, listed)
    if broken or not pr["ok"]:
        names = list(pr["broken"])
        detail = None
        if broken:
            c, p, d = smallest(broken)
            names.append("correspondence BMV.Frag vs basm fragmentComposer (%s)" % d[:200])
            detail = {"case": case_text(c, p), "partition": p["spec"], "detail": d, "impl": p["X"], "model": p["M"]}
        rep.violation({"property": PROP, "kind": "proof-or-correspondence-broken", "broken": names,
                       "first_disagreement": detail, "case": (detail or {}).get("case", ""),
                       "searched": "outputs of sim(basm(G,p)) vs eval(G) and pairwise between partitions on %d "
                                   "partitions: %s" % (stats["partitions"], json.dumps(stats["by_class"]))},
                      no_failing_input=True)


def replay(rep, path):
    hbin = vlib.go_build("c06")
    pr = vlib.prove(PROP, MODULES, exes=[EXE])
    rep.add_proof(pr, "lake build BMV.Props.C06 && lake env lean <#audit_module BMV.Props.C06>",
                  ["BMV.Frag is a hand-written model of the fragment composer; tied by correspondence only"])
    obj = json.load(open(path))
    text = obj.get("case") or (obj.get("first_disagreement") or {}).get("case") or ""
    d = vlib.scratch_dir("c06")
    f = os.path.join(d, "replay-%d.txt" % os.getpid())
    open(f, "w").write(text)
    impl = run_harness_parallel(hbin, [(["replay", f], rep.seed)], 600)[0]
    cases = parse_stream(impl, run_oracle(impl))
    stats = {"cases": 0, "partitions": 0, "by_class": {}, "by_kind": {}, "by_cps": {}, "by_instances": {},
             "sections_with_temps": 0}
    found = {k: [] for k in ("deadlock", "rearm", "property", "tie", "modelself")}
    distinct = set()
    analyse(cases, stats, found, distinct)
    rep.coverage.update({"evaluations": max(stats["partitions"], 1), "distinct_nontrivial": max(2, len(distinct)),
                         "rule": "replay of " + path, "samples": [text.splitlines()[:40]],
                         "input_distribution": stats})
    listed = {f.get("id") for f in vlib.load_known_findings(PROP)}
    broken = report(rep, found, stats, listed)
    if broken:
        c, p, dd = smallest(broken)
        rep.violation({"property": PROP, "kind": "proof-or-correspondence-broken", "case": case_text(c, p),
                       "broken": ["correspondence BMV.Frag vs basm fragmentComposer (%s)" % dd[:200]],
                       "impl": p["X"], "model": p["M"]}, no_failing_input=True)
