"""C18 — every generated HDL file set is self-consistent and synthesizable Verilog.

proof:          lean/BMV/Props/C18.lean — about the lint itself (BMV.Vlog.Lint / Elab / Sem):
                wf_single_driver, wf_decidable, wf_total (full: elab_sigs_in_range + wf_total_of_resolved), lint_sound_undeclared,
                and about the shared-object header model BMV.So: so_ports_agree (top-level connection list
                = arch port list = processor port list, with widths and directions), so_module_agree /
                queue_module_agree_iff / lfsr8_module_disagree (the shared object's own module against its
                instance).  NOT proved: the universal quantifier over the ~250 string-building generator
                functions of /repo.
per instance:   harness/cmd/c18 builds an enumerated family of machines (every static opcode in isolation,
                every reachable dynamic family, modes ha/vn/hy x Threaded 0..3, every shared-object kind with
                1..3 processors, every subset of the opcode families that share helper declarations, processor->domain
                mappings that are not the identity, ports without IO opcodes, basm-produced machines with the hw-optimisation
                flags, one board flavor, random mixes), calls the real Bondmachine.Write_verilog in a scratch
                directory, parses the whole file set (harness/vlog) and lean/Oracle/C18.lean runs
                BMV.Vlog.Source.check on it: per-module [undeclared]/[undefined-module]/[port], then
                `elaborate` + `Design.lint` with every module as a root; the BMV.So model is compared with the
                parsed port lists / connection lists / declarations.
outcome:        every finding must match a known finding (known_findings.json, property C18; the matcher
                looks at class + module/file + message + a predicate on the machine) or it is a VIOLATION
                with the machine description + file/module + message as the replay.
"""
import json
import os
import re

import vlib

LEVEL = "proof"
PROP = "C18"
MODULES = ["BMV.Props.C18"]
EXE = "oracle-c18"

# constructs the reader (harness/vlog, docs/Vlog.md) does not accept although they are legal Verilog-2001:
# a file that fails with one of these is NOT linted and the machine is reported as not-lintable, never as passing
NOT_LINTABLE = [
    ("generate/genvar", re.compile(r"module item 'genvar'|module item 'generate'")),
    ("user function (log2) called in a constant expression", re.compile(r"function call log2\(")),
    ("signed declarations", re.compile(r"signed declaration")),
    ("$signed system function", re.compile(r"system function \$signed")),
]


def _oracle():
    return os.path.join(vlib.LEAN, ".lake", "build", "bin", EXE)


def load_known():
    p = os.environ.get("VERIF_KNOWN_FINDINGS")
    if p:
        d = json.load(open(p))
        fs = d.get("findings", d) if isinstance(d, dict) else d
        return [f for f in fs if f.get("property") == PROP]
    return vlib.load_known_findings(PROP)


# ---------------------------------------------------------------------------------------------
# running harness | oracle and reading the result

def run_pair(hbin, args, timeout=3000):
    scratch = vlib.scratch_dir("c18")
    rc, impl, err = vlib.run([hbin] + args + [scratch], timeout=timeout, env=vlib.goenv(), cwd=scratch)
    done = [l for l in impl.splitlines() if l.startswith("Z done")]
    rc2, model, err2 = vlib.run([_oracle()], input_bytes=impl.encode(), timeout=timeout)
    if rc2 != 0:
        raise RuntimeError("oracle failed rc=%s: %s" % (rc2, err2[-2000:]))
    return impl, model, (rc == 0 and bool(done)), err[-1500:]


def machines(model):
    """oracle output -> list of machine dicts"""
    out, cur = [], None
    for l in model.splitlines():
        if l.startswith("M "):
            cur = {"M": l, "spec": None, "desc": None, "W": "missing", "T": [], "P": [], "R": [], "S": [], "N": "", "Q": []}
            try:
                cur["spec"] = json.loads(l[2:])
            except ValueError:
                cur["spec"] = {"kind": "unreadable"}
            out.append(cur)
        elif cur is None:
            continue
        elif l.startswith("D "):
            try:
                cur["desc"] = json.loads(l[2:])
            except ValueError:
                pass
        elif l.startswith("W "):
            cur["W"] = l[2:]
        elif l.startswith("T "):
            cur["T"] += l[2:].split()
        elif l.startswith("Q "):
            cur["Q"] += l[2:].split()
        elif l.startswith("P "):
            f = l[2:].split(" ", 3)
            if len(f) == 4:
                cur["P"].append({"class": "reader:" + f[1], "where": f[0], "pos": f[2], "message": f[3]})
        elif l.startswith("R "):
            f = l[2:].split("|", 2)
            if len(f) == 3:
                cur["R"].append({"class": f[0], "where": f[1], "message": f[2]})
        elif l.startswith("U "):
            # files whose literal generate-for loops were unrolled, with the registers assigned bit-wise in them
            for item in l[2:].split():
                fn, _, regs = item.partition(":")
                cur.setdefault("U", {})[fn] = [r for r in regs.split(",") if r]
        elif l.startswith("S "):
            cur["S"].append(l[2:])
        elif l.startswith("N "):
            cur["N"] = l[2:]
    return out


def findings_of(m):
    """every finding of one machine: reader errors, lint findings, generator failures, model disagreements"""
    fs = []
    if m["W"] != "ok":
        fs.append({"class": "generator", "where": "Write_verilog", "message": m["W"]})
    for p in m["P"]:
        fs.append(dict(p))
    bitwise = {}
    for fn, regs in (m.get("U") or {}).items():
        bitwise[fn[:-2] if fn.endswith(".v") else fn] = set(regs)
    for r in m["R"]:
        if r["class"] == "follow-on":
            continue
        mm = re.match(r"^\[multi-driver\] reg (\w+) is assigned in more than one always block$", r["message"])
        if r["class"] == "multi-driver" and mm and mm.group(1) in bitwise.get(r["where"], set()):
            # one always block per bit of the register after unrolling a generate loop: legal Verilog;
            # `Design.lint` counts drivers per signal, not per bit
            continue
        fs.append(dict(r))
    for s in m["S"]:
        if s.startswith("diff "):
            fs.append({"class": "so-model", "where": "BMV.So", "message": s[5:]})
    return fs


def not_lintable_reason(f):
    if f["class"] != "reader:unsupported":
        return None
    for name, rx in NOT_LINTABLE:
        if rx.search(f["message"]):
            return name
    return None


# ---------------------------------------------------------------------------------------------
# known findings: signature = {"patterns": [{"class","where","message"}...], "when": {...}}

def proc_of(where, desc):
    """the processor a module / file name belongs to (pN, aN, pNrom, pNram, pN.v, arch_N.v)"""
    mm = re.match(r"^(?:p|a|arch_)(\d+)(?:rom|ram)?(?:\.v)?$", where)
    if not mm or not desc:
        return None
    i = int(mm.group(1))
    ps = desc.get("procs", [])
    return ps[i] if i < len(ps) else None


def _cmp(val, want):
    if isinstance(want, str) and want.startswith(">"):
        return val > int(want[1:])
    if isinstance(want, list):
        return val in want
    return val == want


def when_holds(when, f, m):
    desc = m.get("desc") or {}
    spec = m.get("spec") or {}
    if not when:
        return True
    if "so" in when:
        kinds = [s.split(":")[0] for s in desc.get("sos", [])]
        if when["so"] not in kinds:
            return False
    if "so_not_prefix" in when:
        # some shared object of that kind is attached to a set of processors that is not {0..k-1}
        hit = False
        for i, sname in enumerate(desc.get("sos", [])):
            if sname.split(":")[0] != when["so_not_prefix"]:
                continue
            att = [pi for pi, p in enumerate(desc.get("procs", [])) if i in p.get("sos", [])]
            if att != list(range(len(att))):
                hit = True
        if not hit:
            return False
    if "flavor" in when and spec.get("flavor") != when["flavor"]:
        return False
    if "nilsimbox" in when and bool(spec.get("nilsimbox")) != when["nilsimbox"]:
        return False
    if "machine_has_any" in when:
        allops = set(o for p in desc.get("procs", []) for o in p.get("ops", []))
        if not allops & set(when["machine_has_any"]):
            return False
    if "proc" in when:
        p = proc_of(f["where"], desc)
        if p is None:
            return False
        w = when["proc"]
        ops = set(p.get("ops", []))
        if "has_any" in w and not ops & set(w["has_any"]):
            return False
        if "has_none" in w and ops & set(w["has_none"]):
            return False
        for k in ("mode", "thr", "n", "m", "l"):
            if k in w and not _cmp(p.get(k), w[k]):
                return False
    return True


def match_known(f, m, known):
    for kf in known:
        sig = kf.get("signature") or {}
        if not isinstance(sig, dict):
            continue
        if not when_holds(sig.get("when"), f, m):
            continue
        for pat in sig.get("patterns", []):
            if pat.get("class") != f["class"]:
                continue
            if "when" in pat and not when_holds(pat["when"], f, m):   # a pattern may narrow the entry's predicate
                continue
            if not re.search(pat.get("where", ""), f["where"]):
                continue
            if not re.search(pat.get("message", ""), f["message"]):
                continue
            return kf
    return None


def norm_key(f):
    z = lambda s: re.sub(r"\d+", "N", s)
    return (f["class"], z(f["where"]), z(f["message"])[:200])


# ---------------------------------------------------------------------------------------------

def judge(ms, known, stats, unlisted, hits, notlint):
    for m in ms:
        spec = m["spec"] or {}
        kind = spec.get("kind", "?")
        fam = kind.split(":")[0]
        stats["machines"] += 1
        stats["by_family"][fam] = stats["by_family"].get(fam, 0) + 1
        desc = m["desc"] or {}
        stats["testbenches_excluded"] += len(m["T"])
        for p in desc.get("procs", []):
            for o in p.get("ops", []):
                stats["ops"].add(o)
            stats["mode_thr"].add("%s/thr%d" % (p.get("mode"), p.get("thr", 0)))
        kinds = [s.split(":")[0] for s in desc.get("sos", [])]
        for i, k in enumerate(kinds):
            att = sum(1 for p in desc.get("procs", []) if i in p.get("sos", []))
            stats["so_att"].add("%s x%d" % (k, att))
        for h in spec.get("hwopt", []) or []:
            stats["hwopt"].add(h)
        stats["flavors"].add(spec.get("flavor", "?"))
        for s in m["S"]:
            if s.startswith("ok "):
                stats["so_model_comparisons"] += int(s[3:])
            if s.startswith("skip "):
                stats["so_model_skips"][re.sub(r"\d+", "N", s[5:])] = stats["so_model_skips"].get(re.sub(r"\d+", "N", s[5:]), 0) + 1
        nm = re.search(r"modules=(\d+) elaborated=(\d+)", m["N"])
        nmod, nel = (int(nm.group(1)), int(nm.group(2))) if nm else (0, 0)
        stats["modules_parsed"] += nmod
        stats["modules_elaborated"] += nel
        fs = findings_of(m)
        reasons = []
        real = []
        for f in fs:
            r = not_lintable_reason(f)
            if r:
                reasons.append("%s: %s" % (f["where"], r))
                stats["files_not_lintable"] += 1
            else:
                real.append(f)
        if reasons:
            notlint.append({"machine": kind, "files": reasons})
        if m["W"] == "ok" and not reasons and not m["P"] and nmod > 0 and nel == nmod:
            stats["fully_linted"].add(json.dumps(desc, sort_keys=True))
        if not real and not reasons and m["W"] == "ok":
            stats["clean"] += 1
        for f in real:
            kf = match_known(f, m, known)
            if kf is not None:
                h = hits.setdefault(kf["id"], {"kf": kf, "n": 0, "eg": None})
                h["n"] += 1
                if h["eg"] is None:
                    h["eg"] = "%s: %s %s: %s" % (kind, f["class"], f["where"], f["message"][:140])
            else:
                k = norm_key(f)
                u = unlisted.setdefault(k, {"finding": f, "machine": m, "n": 0})
                u["n"] += 1


def new_stats():
    return {"machines": 0, "by_family": {}, "ops": set(), "mode_thr": set(), "so_att": set(), "hwopt": set(), "flavors": set(),
            "testbenches_excluded": 0, "so_model_comparisons": 0, "so_model_skips": {}, "modules_parsed": 0,
            "modules_elaborated": 0, "files_not_lintable": 0, "fully_linted": set(), "clean": 0}


def corpus_files():
    d = os.path.join(vlib.CORPUS, PROP)
    if not os.path.isdir(d):
        return []
    return sorted(os.path.join(d, f) for f in os.listdir(d) if f.endswith(".spec"))


def static_opcodes(model):
    """names in procbuilder.Allopcodes at start-up, as printed by the harness (line `A …`)"""
    for l in model.splitlines():
        if l.startswith("A "):
            return set(l[2:].split())
    return set()


def run(rep):
    thorough = rep.tier == "thorough"
    hbin = vlib.go_build("c18")
    pr = vlib.prove(PROP, MODULES, exes=[EXE], leanchecker=thorough)
    rep.add_proof(pr, "lake build BMV.Props.C18 && lake env lean <#audit_module BMV.Props.C18>"
                  + (" && lake env leanchecker BMV.Props.C18" if thorough else ""),
                  ["BMV.Vlog (Sexp, Ast, Elab, Sem, Lint, Check): the Verilog-subset elaboration and lint that define what "
                   "'self-consistent' means here (docs/Vlog.md); no implicit nets; two-state",
                   "harness/vlog: Verilog reader (text -> S-expression); constructs outside the subset are errors, never skipped",
                   "BMV.So: hand-written model of the shared-object header functions (6 of 9 kinds), tied by exact comparison "
                   "with the parsed port lists, connection lists and declarations on every machine",
                   "the enumerated family of machines in harness/cmd/c18/gen.go (what is checked per run is this family, "
                   "not every machine the tool accepts)"])
    rep.assumptions += [
        "test benches (*_tb.v: `always #1 clk = ~clk`, `$dumpfile`) are not designs: excluded from the lint and counted",
        "a standard front end would create implicit 1-bit nets for undeclared identifiers in port connections and on the "
        "left of continuous assignments; this lint does not (property statement: 'declared in scope')",
        "files using constructs outside the reader's subset (generate/genvar, user functions, signed) are reported as "
        "not-lintable, never as passing",
        "FXP and FloPoCo opcode families cannot be generated in the sandbox (they need /tmp/fxpcode/*.v resp. the flopoco executable)",
    ]
    known = load_known()
    stats = new_stats()
    unlisted, hits, notlint = {}, {}, []
    samples = []
    harness_ok = True
    if os.path.exists(_oracle()):
        for f in corpus_files():
            impl, model, ok, err = run_pair(hbin, ["replay", f])
            judge(machines(model), known, stats, unlisted, hits, notlint)
        impl, model, ok, err = run_pair(hbin, ["gen", "thorough" if thorough else "quick"], timeout=6000)
        ms = machines(model)
        judge(ms, known, stats, unlisted, hits, notlint)
        harness_ok = ok
        for m in ms[:1] + ms[len(ms) // 2:len(ms) // 2 + 1] + ms[-1:]:
            samples.append({"machine": m["M"][:400], "write_verilog": m["W"], "oracle": m["N"],
                            "findings": [("%s|%s|%s" % (f["class"], f["where"], f["message"]))[:160] for f in findings_of(m)][:4]})
        if not ok:
            last = ms[-1]["M"] if ms else ""
            unlisted[("generator", "process", "exit")] = {
                "finding": {"class": "generator", "where": "process", "message": "the harness process ended before its last machine "
                            "(a generator called log.Fatal / os.Exit?): " + err[-300:]},
                "machine": {"M": last, "spec": None}, "n": 1}

    static = static_opcodes(model) if os.path.exists(_oracle()) else set()
    missing_ops = sorted(static - stats["ops"])
    rep.coverage.update({
        "evaluations": stats["machines"],
        "distinct_nontrivial": len(stats["fully_linted"]),
        "rule": "evaluation = one machine built through the real API, written by the real Bondmachine.Write_verilog into a scratch "
                "directory, its whole file set (minus test benches) parsed and checked by BMV.Vlog.Source.check; non-trivial = distinct "
                "machine descriptions whose every file was read and every module elaborated as a root (the lint ran end to end, "
                "whether or not it then reported known findings)",
        "samples": samples or [{"note": "correspondence did not run"}],
        "traces_validated_against_impl": stats["so_model_comparisons"],
        "instance_obligations": {"machines": stats["machines"], "lint_clean": stats["clean"],
                                 "modules_parsed": stats["modules_parsed"], "modules_elaborated_as_root": stats["modules_elaborated"]},
        "input_distribution": {
            "by_family": stats["by_family"],
            "static_opcodes_registered": len(static), "static_opcodes_in_some_machine": len(static & stats["ops"]),
            "static_opcodes_missing": missing_ops,
            "dynamic_opcodes": sorted(o for o in stats["ops"] if o not in static),
            "mode_x_threaded": sorted(stats["mode_thr"]), "shared_object_x_attached": sorted(stats["so_att"]),
            "hw_optimisations": sorted(stats["hwopt"]), "flavors": sorted(stats["flavors"]),
            "testbench_files_excluded": stats["testbenches_excluded"],
            "so_model_comparisons": stats["so_model_comparisons"], "so_model_skips": stats["so_model_skips"],
        },
        "not_lintable": {"files": stats["files_not_lintable"], "machines": notlint[:40],
                         "constructs": [n for n, _ in NOT_LINTABLE]},
        "unmodelled": ["shared-object kinds kbd, uart, vtextmem in BMV.So (their machines are still linted)",
                       "opcode families FXP (addfxps/multfxps/divfxps) and FloPoCo (addflpe/multflpe/divflpe): not generatable here",
                       "board flavors other than basys3; extra modules (etherbond, udpbond, bmapi, slow, ...)",
                       "files with generate/genvar, user functions, signed: channel shared object, chc/chw/wrd/wwr processors, "
                       "uart, float opcodes (addf, multf, divf, *f16, fps family)",
                       "evaluation-class errors (out-of-range dynamic index, division by zero): excluded from wf_total on purpose"],
    })
    if missing_ops:
        rep.notes.append("static opcodes in no generated machine: %s" % missing_ops)

    # ---- outcome ----
    for kid, h in sorted(hits.items()):
        rep.known("%s: %s (%d findings this run, e.g. %s)" % (kid, h["kf"].get("what_fails", ""), h["n"], h["eg"]))
    for k, u in sorted(unlisted.items(), key=lambda kv: str(kv[0])):
        f, m = u["finding"], u["machine"]
        if f["class"] == "so-model":
            rep.violation({"property": PROP, "kind": "so-model-differs-from-emitted-text", "broken": ["BMV.So tie: " + f["message"]],
                           "machine": m["M"], "lines": m["M"], "occurrences": u["n"],
                           "replay": "python3 tools/check.py C18 --replay <this file>"}, no_failing_input=True)
        else:
            rep.violation({"property": PROP, "kind": "lint-error-in-emitted-hdl", "class": f["class"],
                           "file_or_module": f["where"], "message": f["message"], "pos": f.get("pos", ""),
                           "machine": m["M"], "lines": m["M"], "occurrences": u["n"],
                           "how_to_read": "machine = JSON after 'M ' (harness/cmd/c18/main.go: type spec); `c18 dump <file> <scratch> <outdir>` "
                                          "writes the emitted files",
                           "replay": "python3 tools/check.py C18 --replay <this file>"})
    if not pr["ok"]:
        rep.violation({"property": PROP, "kind": "proof-broken", "broken": list(pr["broken"])}, no_failing_input=True)
    if not harness_ok and not unlisted:
        rep.violation({"property": PROP, "kind": "harness-failed", "broken": ["harness run incomplete"]}, no_failing_input=True)


def replay(rep, path):
    hbin = vlib.go_build("c18")
    pr = vlib.prove(PROP, MODULES, exes=[EXE])
    rep.add_proof(pr, "lake build BMV.Props.C18 && lake env lean <#audit_module BMV.Props.C18>")
    obj = json.load(open(path))
    text = obj.get("lines") or obj.get("machine") or ""
    if not text.strip().startswith("M "):
        rep.coverage.update({"evaluations": 0, "distinct_nontrivial": 0, "rule": "replay of " + path + " (nothing to replay)",
                             "samples": [obj.get("broken", [])]})
        rep.violation({"property": PROP, "kind": "replay-without-machine", "broken": obj.get("broken", [])}, no_failing_input=True)
        return
    d = vlib.scratch_dir("c18")
    f = os.path.join(d, "replay-%d.spec" % os.getpid())
    open(f, "w").write(text.strip() + "\n")
    impl, model, ok, err = run_pair(hbin, ["replay", f])
    os.remove(f)
    known = load_known()
    stats = new_stats()
    unlisted, hits, notlint = {}, {}, []
    ms = machines(model)
    judge(ms, known, stats, unlisted, hits, notlint)
    rep.coverage.update({"evaluations": stats["machines"], "distinct_nontrivial": len(stats["fully_linted"]),
                         "rule": "replay of " + path,
                         "samples": [[("%s|%s|%s" % (x["class"], x["where"], x["message"]))[:200] for m in ms for x in findings_of(m)][:20]]})
    for kid, h in sorted(hits.items()):
        rep.known("%s: %s" % (kid, h["eg"]))
    for k, u in unlisted.items():
        fd = u["finding"]
        rep.violation({"property": PROP, "kind": "lint-error-in-emitted-hdl", "class": fd["class"], "file_or_module": fd["where"],
                       "message": fd["message"], "machine": u["machine"]["M"], "lines": u["machine"]["M"]},
                      no_failing_input=fd["class"] == "so-model")
