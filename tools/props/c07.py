"""C07 — every build step is a function of its inputs (PARTIAL, see lean/BMV/Props/C07.lean).

proof:        lean/BMV/Props/C07.lean — map walks take the iteration order as a `List.Perm`
              parameter; theorems `∀ π₁ π₂, f π₁ = f π₂` for ImportString (iff disjoint matchers),
              symbolTagger, framed section walks, keyed copies, set inserts, sorted-before-use,
              getReqs consumers; order-sensitivity witnesses + determinism of the repairs for the
              neuralbond cpdef loop and matcherResolver's alternative numbering.
regenerated:  harness/cmd/c07 (go/parser + go/types) walks the packages of the five tools and
              writes lean/BMV/Gen/MapRanges.lean: every `range` over a map or over a slice that is
              extended in map order (Allopcodes, bi.matchers) (file, function,
              expression, ordinal, syntactic class of the body), every clock / math/rand /
              temp-path use, every `go` statement.  Kernel obligation: every generated site is in
              the hand-written table lean/BMV/SchedExpect.lean with the same class.
search:       each tool is run r times in FRESH processes (GOMAXPROCS 1/2/16) on corpus/C07 and
              /repo inputs; exit code, stdout and every produced file are byte-compared.  A
              difference is a concrete failing input.  A difference that matches the signature of
              a finding listed in known_findings.json is printed as KNOWN-FINDING.
"""
import concurrent.futures
import hashlib
import json
import os
import random
import re
import shutil
import subprocess

import vlib

LEVEL = "proof"
PROP = "C07"
MODULES = ["BMV.Props.C07"]
EXE = "oracle-c07"
CLIS = ["basm", "bondgo", "neuralbond", "bmqsim", "bondmachine"]
GEN = os.path.join(vlib.LEAN, "BMV", "Gen", "MapRanges.lean")
EXPECT = os.path.join(vlib.LEAN, "BMV", "SchedExpect.lean")
CORP = os.path.join(vlib.CORPUS, PROP)
GOMAXPROCS = ["1", "2", "16"]
TIMEOUT = 25  # seconds per tool run (bondgo may hang: C12)

# ---------------------------------------------------------------------------------------------
# known-finding signatures: a predicate on (job, artefact name, bytes a, bytes b) that says "this
# difference is exactly the listed defect"; anything else is reported as a violation
# ---------------------------------------------------------------------------------------------

CPDEF = re.compile(rb"^%meta cpdef \S+ fragcollapse:\S+$")


def sig_neuralbond_cpdef(job, name, a, b):
    if job["tool"] != "neuralbond" or not name.endswith(".basm"):
        return False
    la, lb = a.split(b"\n"), b.split(b"\n")
    if len(la) != len(lb) or sorted(la) != sorted(lb):
        return False
    return all(x == y or (CPDEF.match(x) and CPDEF.match(y)) for x, y in zip(la, lb))


def _canon_reqs(raw):
    d = json.loads(raw)
    out = []
    for e in d:
        # Export rewrites its own `node` argument from "/" to "" after the first sub-node it descends into, so the
        # root's later entries carry Node "" or "/" depending on the walk order: same defect, same signature
        out.append((e.get("Node") or "/", e.get("Type"), e.get("Name"), ",".join(sorted(str(e.get("Req", "")).split(",")))))
    return sorted(out)


def sig_bmreqs_dump(job, name, a, b):
    if job["tool"] != "basm" or not name.endswith("req.json"):
        return False
    try:
        return _canon_reqs(a) == _canon_reqs(b)
    except Exception:
        return False


ALTIDX = re.compile(r"_\d+")


def _canon_reqs_noidx(raw):
    """requirement dump with the alternative numbers (`<section>_<n>`) erased"""
    d = json.loads(raw)
    out = []
    for e in d:
        req = sorted(ALTIDX.sub("_#", x) for x in str(e.get("Req", "")).split(","))
        out.append((ALTIDX.sub("_#", str(e.get("Node") or "/")), e.get("Type"), e.get("Name"), ",".join(req)))
    return sorted(out)


def sig_matcher_altkeys(job, name, a, b):
    """the same alternatives under a different numbering: equal once the numbers are erased"""
    if job["tool"] != "basm" or not name.endswith("req.json"):
        return False
    try:
        return _canon_reqs(a) != _canon_reqs(b) and _canon_reqs_noidx(a) == _canon_reqs_noidx(b)
    except Exception:
        return False


def _canon_bmeta(raw):
    out = []
    for line in raw.decode("utf-8", "replace").split("\n"):
        m = re.match(r"^(%meta \S+ \S+ )(.*)$", line)
        if m:
            kv = sorted(x.strip() for x in m.group(2).split(","))
            out.append(m.group(1) + ", ".join(kv))
        else:
            out.append(line)
    return sorted(out)


def _canon_cluster(raw):
    d = json.loads(raw)
    d["Peers"] = sorted(d.get("Peers") or [], key=lambda p: p.get("PeerId"))
    return d


def sig_cluster_meta(job, name, a, b):
    if job["tool"] != "basm" or "cluster" not in job["kind"]:
        return False
    try:
        if name.endswith(".bmeta"):
            return _canon_bmeta(a) == _canon_bmeta(b)
        if name.endswith("cluster.json"):
            return _canon_cluster(a) == _canon_cluster(b)
        if name.endswith("_maps.json"):
            return json.loads(a) == json.loads(b)
    except Exception:
        return False
    return False


CHANLINE = re.compile(rb"^(wwr|wrd) r\d+ ch\d+$|^chw$|^chr$")


def _sort_slocs(x):
    if isinstance(x, dict):
        return {k: (sorted(v) if k == "Slocs" and isinstance(v, list) else _sort_slocs(v)) for k, v in x.items()}
    if isinstance(x, list):
        return [_sort_slocs(v) for v in x]
    return x


def sig_bondgo_goargs(job, name, a, b):
    """bondgo, `go f(a, b, …)` with several arguments: the same instructions, only the channel
    writes / reads that pass the arguments are emitted in another order"""
    if job["tool"] != "bondgo":
        return False
    if name.endswith(".asm") or ".asm_" in name:
        la, lb = a.split(b"\n"), b.split(b"\n")
        if len(la) != len(lb) or sorted(la) != sorted(lb):
            return False
        return all(x == y or (CHANLINE.match(x) and CHANLINE.match(y)) for x, y in zip(la, lb))
    if name.endswith(".json"):
        try:
            return _sort_slocs(json.loads(a)) == _sort_slocs(json.loads(b))
        except Exception:
            return False
    return False


def sig_bondgo_chanlinks(job, name, a, b):
    """bondgo: the same machine, only the per-processor lists of shared-object links in another order"""
    if job["tool"] != "bondgo" or not name.endswith(".json"):
        return False
    try:
        da, db = json.loads(a), json.loads(b)
        if da == db or "Shared_links" not in da:
            return False
        for d in (da, db):
            d["Shared_links"] = [sorted(l) if isinstance(l, list) else l for l in (d.get("Shared_links") or [])]
        return da == db
    except Exception:
        return False


def sig_bmapi_uartusb(job, name, a, b):
    """board top module with the uartusb BMAPI: identical except that the positional connections of the
    bmapiuarttransceiver instance list the same ports in another order"""
    if job["tool"] != "bondmachine" or "uartusb" not in job["kind"] or not name.endswith("bondmachine_main.v"):
        return False
    la, lb = a.split(b"\n"), b.split(b"\n")
    if len(la) != len(lb):
        return False
    hit = False
    for x, y in zip(la, lb):
        if x == y:
            continue
        if b"bmapiuarttransceiver_inst(" not in x or b"bmapiuarttransceiver_inst(" not in y:
            return False
        if sorted(t.strip() for t in x.split(b",")) != sorted(t.strip() for t in y.split(b",")):
            return False
        hit = True
    return hit


SIGNATURES = {
    "C07-bmapi-uartusb-port-order": (sig_bmapi_uartusb,
                                     "bondmachine -create-verilog -use-bmapi -bmapi-flavor uartusb connects the ports of the "
                                     "bmapiuarttransceiver (positionally) in the map order of BMAPIExtra.Get_Params"),
    "C07-bondgo-channel-links-order": (sig_bondgo_chanlinks,
                                       "bondgo Create_Bondmachine connects the processors to the channels by ranging over the channel "
                                       "requirement map: Shared_links of the saved machine come out in map order"),
    "C07-bondgo-goargs-order": (sig_bondgo_goargs,
                                "bondgo passes the arguments of `go f(a, b, …)` by ranging over maps: the channel writes of the caller "
                                "and (independently) the channel reads of the new processor come out in map order"),
    "C07-neuralbond-cpdef-order": (sig_neuralbond_cpdef,
                                   "neuralbond WriteBasm emits the `%meta cpdef … fragcollapse` lines in map order"),
    "C07-bmreqs-dump-order": (sig_bmreqs_dump,
                              "basm -dump-requirements lists requirement nodes and their comma lists in map order"),
    "C07-matcherresolver-altkeys": (sig_matcher_altkeys,
                                    "basm matcherResolver numbers the alternatives of a section (<section>_<n>) in map order of its "
                                    "choice keys: the same number names different alternatives on different runs (visible in -dump-requirements)"),
    "C07-basm-cluster-meta-order": (sig_cluster_meta,
                                    "basm cluster outputs (-co / -oprefix) list meta key:value pairs and peers in map order"),
}

# ---------------------------------------------------------------------------------------------
# jobs
# ---------------------------------------------------------------------------------------------


PRIV = os.path.join(vlib.BIN, "c07-cli")


def _bin(name):
    return os.path.join(PRIV, name)


def build_clis():
    """build the five CLIs from the working tree into a directory of our own, in ONE `go build`
    invocation (same flags, environment and lock as vlib.go_build_repo; five separate invocations
    cost ~45 s of sequential linking, one costs ~12 s; and other checks delete and rebuild the
    shared .build/bin binaries at any time, so we do not run from there)"""
    os.makedirs(PRIV, exist_ok=True)
    with vlib.Lock("go"):
        for c in CLIS:
            if os.path.exists(_bin(c)):
                os.remove(_bin(c))
        cmd = ["go", "build", "-tags", "verif", "-o", PRIV + os.sep] + ["./cmd/" + c for c in CLIS]
        rc, so, se = vlib.run(cmd, cwd=vlib.REPO, env=vlib.goenv(), timeout=900)
    if rc != 0 or not all(os.path.exists(_bin(c)) for c in CLIS):
        raise vlib.BuildError("go build of cmd/{%s} failed:\n%s%s" % (",".join(CLIS), so, se))
    # neuralbond once more with the race detector (needs cgo; skipped with a note when that is not available)
    with vlib.Lock("go"):
        if os.path.exists(_bin("neuralbond-race")):
            os.remove(_bin("neuralbond-race"))
        env = vlib.goenv()
        env["CGO_ENABLED"] = "1"
        vlib.run(["go", "build", "-race", "-tags", "verif", "-o", _bin("neuralbond-race"), "./cmd/neuralbond"],
                 cwd=vlib.REPO, env=env, timeout=900)


def _corp(*p):
    return os.path.join(CORP, *p)


def make_jobs(thorough, stage_dir):
    """list of jobs: dict(tool, kind, argv (with {out} = fresh dir), inputs [paths], copy {name: src}
    files copied into the run dir first, note).  Later pipeline stages take the FIRST run's output
    of the earlier stage as their fixed input (each stage is judged as a function of its input).
    `bondmachine` rewrites its -bondmachine-file (os.Create + Jsoner) at the end of EVERY invocation, so a
    machine file shared between processes is truncated under a concurrent reader ("unexpected end of JSON
    input", exit 2 in about 1 % of runs when the three bmapi flavours ran side by side on one staged file)
    and later runs read an earlier run's rewrite: every bondmachine run therefore gets a private copy of the
    staged machine in its run directory; the rewritten file is one more compared artefact."""
    repo = vlib.REPO
    jobs = []
    chooser = ["-chooser-min-word-size", "-chooser-force-same-name"]
    basms = sorted(f for f in os.listdir(CORP) if f.endswith(".basm"))
    for f in basms:
        src = _corp(f)
        if f.startswith("cluster_"):
            jobs.append({"tool": "basm", "kind": "basm-cluster", "inputs": [src],
                         "argv": [_bin("basm")] + chooser + ["-co", "{out}/cluster.json", "-oprefix", "{out}/edge_", src]})
            continue
        jobs.append({"tool": "basm", "kind": "basm", "inputs": [src], "copy": {"bminfo.json": _corp("empty_bminfo.json")},
                     "argv": [_bin("basm")] + chooser + ["-o", "{out}/bm.json", "-bo", "{out}/bm.bcof",
                                                         "-bminfo-file", "{out}/bminfo.json",
                                                         "-dump-requirements", "{out}/req.json", src]})
        if b"mapclk" in open(src, "rb").read():
            jobs.append({"tool": "basm", "kind": "basm-mapfile", "inputs": [src],
                         "argv": [_bin("basm")] + chooser + ["-o", "{out}/bm.json", "-create-mapfile", "{out}/map.json", src]})
    for f in sorted(f for f in os.listdir(CORP) if f.endswith(".go")):
        src = _corp(f)
        jobs.append({"tool": "bondgo", "kind": "bondgo", "inputs": [src], "may_hang": True,
                     "argv": [_bin("bondgo"), "-input-file", src, "-mpm", "-save-bondmachine", "{out}/bm.json"]})
        jobs.append({"tool": "bondgo", "kind": "bondgo-asm", "inputs": [src], "may_hang": True,
                     "argv": [_bin("bondgo"), "-input-file", src, "-save-assembly", "{out}/prog.asm", "-save-machine", "{out}/machine.json"]})
    nets = ["net-testsmall.json"] + (["net-banknote.json", "net-testnormal.json"] if thorough else [])
    lib = os.path.join(repo, "library", "neurons")
    frags = sorted(os.path.join(lib, f) for f in os.listdir(lib) if f.startswith("frag-") and f.endswith(".basm")) \
        if os.path.isdir(lib) else []
    for net in nets:
        src = os.path.join(repo, "cmd", "neuralbond", net)
        if not os.path.exists(src):
            continue
        for mode in ("fragment",) + (("romcode",) if thorough else ()):
            nb = {"tool": "neuralbond", "kind": "neuralbond-" + mode, "inputs": [src, _corp("nb_config.json")],
                  "copy": {"cfg.json": _corp("nb_config.json")},
                  "argv": [_bin("neuralbond"), "-net-file", src, "-config-file", "{out}/cfg.json", "-neuron-lib-path", lib,
                           "-operating-mode", mode, "-save-basm", "{out}/net.basm"]}
            jobs.append(nb)
            if mode == "fragment":
                # stage 2: basm on the first run's net.basm (+ the neuron fragment library)
                st = os.path.join(stage_dir, "nb-" + net.replace(".json", ""))
                jobs.append({"tool": "basm", "kind": "basm-on-neuralbond", "after": nb, "stage": st, "stage_file": "net.basm",
                             "inputs": ["<first output of neuralbond on %s>" % net] + frags,
                             "argv": [_bin("basm")] + chooser + ["-o", "{out}/bm.json", os.path.join(st, "net.basm")] + frags})
                # stage 3: bondmachine -create-verilog on the first bm.json
                st2 = os.path.join(stage_dir, "nbbm-" + net.replace(".json", ""))
                jobs.append({"tool": "bondmachine", "kind": "create-verilog", "after": jobs[-1], "stage": st2, "stage_file": "bm.json",
                             "inputs": ["<first bm.json of basm on neuralbond output>", _corp("empty_simbox.json")],
                             "cwd_out": True, "copy": {"bm.json": os.path.join(st2, "bm.json")},
                             "argv": [_bin("bondmachine"), "-bondmachine-file", "{out}/bm.json", "-create-verilog",
                                      "-verilog-flavor", "iverilog", "-verilog-simulation", "-simbox-file", _corp("empty_simbox.json")]})
    # neuralbond on a net with more than 64 weights that all feed the same two nodes (any per-node counter
    # updated from several goroutines is contended): always 16 threads, at least 10 runs; and once under
    # the race detector
    fan = _corp("net_fanin_640_2_1.json")
    if os.path.exists(fan):
        jobs.append({"tool": "neuralbond", "kind": "neuralbond-fanin", "inputs": [fan], "gomaxprocs": "16", "min_runs": 8, "timeout": 90,
                     "argv": [_bin("neuralbond"), "-net-file", fan, "-neuron-lib-path", lib, "-data-type", "float32",
                              "-save-basm", "{out}/net.basm"]})
        if os.path.exists(_bin("neuralbond-race")):
            jobs.append({"tool": "neuralbond", "kind": "neuralbond-race", "inputs": [fan], "gomaxprocs": "4", "max_runs": 1, "race": True,
                         "timeout": 240, "may_hang": True,  # instrumented run is ~10x slower; a timeout under load is not a finding
                         "argv": [_bin("neuralbond-race"), "-net-file", fan, "-neuron-lib-path", lib, "-data-type", "float32",
                                  "-save-basm", "{out}/net.basm"]})
    # bondmachine -create-verilog on every machine assembled from the corpus (skipped when basm refused the input)
    for bj in [j for j in jobs if j["kind"] == "basm"]:
        tag = os.path.basename(bj["inputs"][0]).replace(".basm", "")
        st = os.path.join(stage_dir, "bm-" + tag)
        jobs.append({"tool": "bondmachine", "kind": "create-verilog", "after": bj, "stage": st, "stage_file": "bm.json",
                     "inputs": ["<first bm.json of basm on %s>" % bj["inputs"][0], _corp("empty_simbox.json")], "cwd_out": True,
                     "copy": {"bm.json": os.path.join(st, "bm.json")},
                     "argv": [_bin("bondmachine"), "-bondmachine-file", "{out}/bm.json", "-create-verilog",
                              "-verilog-flavor", "iverilog", "-verilog-simulation", "-simbox-file", _corp("empty_simbox.json")]})
    # bondmachine -create-verilog for a board with the BMAPI extra module, every flavour the CLI accepts, on the
    # machine with six inputs and three outputs (the port lists of the module come out of a map)
    many = next((j for j in jobs if j["kind"] == "basm" and j["inputs"][0].endswith("mapfile_many_io.basm")), None)
    if many and os.path.exists(_corp("bmapi_map_6in_3out.json")):
        st = os.path.join(stage_dir, "bmapi-many")
        for fl, ver in (("aximm", ""), ("uartusb", ""), ("axist", "basic")) + ((("axist", "optimized"),) if thorough else ()):
            argv = [_bin("bondmachine"), "-bondmachine-file", "{out}/bm.json", "-register-size", "8", "-create-verilog",
                    "-verilog-flavor", "zedboard", "-verilog-mapfile", _corp("board_map_clk_reset.json"), "-use-bmapi",
                    "-bmapi-flavor", fl, "-bmapi-language", "c", "-bmapi-mapfile", _corp("bmapi_map_6in_3out.json"),
                    "-bmapi-liboutdir", "lib", "-bmapi-modoutdir", "mod", "-bmapi-auxoutdir", "aux"]
            if ver:
                argv += ["-bmapi-flavor-version", ver]
            jobs.append({"tool": "bondmachine", "kind": "create-verilog-bmapi-" + fl + ("-" + ver if ver else ""), "after": many,
                         "stage": st, "stage_file": "bm.json", "cwd_out": True, "copy": {"bm.json": os.path.join(st, "bm.json")},
                         "inputs": ["<first bm.json of basm on %s>" % many["inputs"][0], _corp("bmapi_map_6in_3out.json"),
                                    _corp("board_map_clk_reset.json")], "argv": argv})
    # bmqsim -> basm
    bmq = os.path.join(repo, "cmd", "bmqsim", "program.bmq")
    if os.path.exists(bmq):
        flavors = ["seq_hardcoded_real"] + (["seq_hardcoded_complex", "seq_hardcoded_addtree_complex"] if thorough else [])
        for fl in flavors:
            q = {"tool": "bmqsim", "kind": "bmqsim-" + fl, "inputs": [bmq],
                 "argv": [_bin("bmqsim"), "-build-matrix-seq-hardcoded", "-hw-flavor", fl, "-save-basm", "{out}/q.basm",
                          "-save-bondmachine", "{out}/qbm.json", "-show-matrices", "-show-circuit-matrix",
                          "-emit-bmapi-maps", "-bmapi-maps-file", "{out}/qmaps.json", bmq]}
            jobs.append(q)
            st = os.path.join(stage_dir, "bmq-" + fl)
            jobs.append({"tool": "basm", "kind": "basm-on-bmqsim", "after": q, "stage": st, "stage_file": "q.basm",
                         "inputs": ["<first output of bmqsim %s>" % fl],
                         "argv": [_bin("basm")] + chooser + ["-o", "{out}/bm.json", os.path.join(st, "q.basm")]})
    for i, j in enumerate(jobs):
        j["id"] = i
    return jobs


def run_once(job, rundir, gomaxprocs):
    """one fresh process; returns dict(rc, files{name: bytes}) — stderr is NOT compared (log
    timestamps, panic traces with addresses) but kept for the report"""
    if os.path.isdir(rundir):
        shutil.rmtree(rundir)
    os.makedirs(rundir)
    for name, src in (job.get("copy") or {}).items():
        shutil.copyfile(src, os.path.join(rundir, name))
    argv = [a.replace("{out}", rundir) for a in job["argv"]]
    env = dict(os.environ)
    env["GOMAXPROCS"] = gomaxprocs
    env.pop("GOTRACEBACK", None)
    try:
        p = subprocess.run(argv, stdout=subprocess.PIPE, stderr=subprocess.PIPE, timeout=job.get("timeout", TIMEOUT), env=env,
                           cwd=rundir, stdin=subprocess.DEVNULL)
        rc, so, se = p.returncode, p.stdout, p.stderr
    except subprocess.TimeoutExpired as e:
        rc, so, se = -9, e.stdout or b"", e.stderr or b""
    if job.get("may_hang") and rc == 2 and b"all goroutines are asleep - deadlock" in se:
        rc = -9  # bondgo's allocator / usage-monitor deadlock (C12): same defect as the hang, detected by the Go runtime
    files = {"<stdout>": so}
    race = None
    if job.get("race") and b"WARNING: DATA RACE" in se:
        race = se[:3000].decode("utf-8", "replace")
    for dp, dn, fn in os.walk(rundir):
        for f in sorted(fn):
            full = os.path.join(dp, f)
            files[os.path.relpath(full, rundir)] = open(full, "rb").read()
    return {"rc": rc, "files": files, "stderr": se[-600:].decode("utf-8", "replace"), "gomaxprocs": gomaxprocs, "race": race}


def run_job(job, r, scratch):
    """r fresh runs of one job; returns (runs, diffs) — diffs = list of (name, i, j) differing artefacts"""
    runs = []
    r = max(r, job.get("min_runs", 0))
    if "max_runs" in job:
        r = min(r, job["max_runs"])
    for k in range(r):
        gmp = job.get("gomaxprocs") or GOMAXPROCS[k % len(GOMAXPROCS)]
        x = run_once(job, os.path.join(scratch, "j%d" % job["id"], "r%d" % k), gmp)
        if x["rc"] == -9 and not job.get("may_hang"):
            # a tool that never hangs ran out of time: on the shared sandbox that is load, not the tool;
            # the run is repeated once with six times the budget before a timeout is believed
            slow = dict(job, timeout=6 * job.get("timeout", TIMEOUT))
            x = run_once(slow, os.path.join(scratch, "j%d" % job["id"], "r%d" % k), gmp)
            x["retried_after_timeout"] = True
        runs.append(x)
    return runs


def compare_runs(job, runs):
    """-> (completed, hangs, diffs) ; diffs: list of dict(name, a_run, b_run, a, b)"""
    done = [x for x in runs if x["rc"] != -9]
    hangs = len(runs) - len(done)
    diffs = []
    if len(done) < 2:
        return done, hangs, diffs
    base = done[0]
    for k, x in enumerate(done[1:], 1):
        if x["rc"] != base["rc"]:
            diffs.append({"name": "<exit code>", "a": str(base["rc"]).encode(), "b": str(x["rc"]).encode(), "k": k})
            continue
        names = sorted(set(base["files"]) | set(x["files"]))
        for n in names:
            a, b = base["files"].get(n), x["files"].get(n)
            if a != b:
                diffs.append({"name": n, "a": a if a is not None else b"<missing>", "b": b if b is not None else b"<missing>", "k": k})
    return done, hangs, diffs


def first_diff_excerpt(a, b):
    la, lb = a.split(b"\n"), b.split(b"\n")
    for i, (x, y) in enumerate(zip(la, lb)):
        if x != y:
            c = next((k for k in range(min(len(x), len(y))) if x[k] != y[k]), min(len(x), len(y)))
            lo = max(0, c - 120)
            return {"line": i + 1, "column": c + 1, "run_a": x[lo:c + 180].decode("utf-8", "replace"),
                    "run_b": y[lo:c + 180].decode("utf-8", "replace")}
    return {"line": min(len(la), len(lb)) + 1, "run_a": "<%d lines>" % len(la), "run_b": "<%d lines>" % len(lb)}


# ---------------------------------------------------------------------------------------------
# regenerated table
# ---------------------------------------------------------------------------------------------

def regenerate(hbin):
    """one extractor pass: rewrites lean/BMV/Gen/MapRanges.lean (only when it changed) and returns the table as JSON"""
    os.makedirs(os.path.dirname(GEN), exist_ok=True)
    rc, js, se = vlib.run([hbin, "both", vlib.REPO, GEN], env=vlib.goenv(), timeout=600)
    if rc != 0:
        raise vlib.BuildError("site extractor failed on %s:\n%s" % (vlib.REPO, se[-3000:]))
    return json.loads(js)


ROW = re.compile(r'^\s*⟨(0x[0-9a-f]+), "((?:[^"\\]|\\.)*)", \[([^\]]*)\], (.*)⟩,?\s*$')


def read_expect():
    rows = []
    for line in open(EXPECT, encoding="utf-8"):
        m = ROW.match(line)
        if m:
            rows.append({"key": m.group(1), "id": m.group(2).replace('\\"', '"').replace("\\\\", "\\"),
                         "cls": "+".join(re.findall(r'"([^"]*)"', m.group(3))), "verdict": m.group(4).strip()})
    return rows


def table_diagnosis(sites, rows):
    """python-side reading of the same comparison the kernel does, to say WHICH site is new"""
    by_key = {r["key"] for r in rows}
    by_id = {}
    for r in rows:
        by_id.setdefault(r["id"], []).append(r)
    unclassified, changed = [], []
    for s in sites:
        if s["key"] in by_key or s["class"] == "sortedkeys":
            # class sortedkeys: collect-then-library-sort, accepted by the generic rule (Sched.sortedKeysKey)
            continue
        if s["id"] in by_id:
            changed.append({"site": s["id"], "line": s["line"], "class_now": s["class"],
                            "class_in_table": [r["cls"] for r in by_id[s["id"]]],
                            **({"now": s["note"]} if s.get("note") else {})})
        else:
            unclassified.append({"site": s["id"], "line": s["line"], "class": s["class"]})
    ids = [r["id"].encode() for r in rows]
    unsorted = [rows[i]["id"] for i in range(1, len(rows)) if ids[i] < ids[i - 1]]
    live = {s["key"] for s in sites if s["class"] != "sortedkeys"}
    stale = [r["id"] for r in rows if r["key"] not in live]
    return unclassified, changed, unsorted, stale


# ---------------------------------------------------------------------------------------------

def correspondence(rep, thorough, only_job=None):
    scratch = vlib.scratch_dir("c07" + vlib._REPO_TAG)
    stage_dir = os.path.join(scratch, "stage")
    if os.path.isdir(stage_dir):
        shutil.rmtree(stage_dir)
    os.makedirs(stage_dir)
    jobs = make_jobs(thorough, stage_dir)
    r = 40 if thorough else 6
    rng = random.Random(vlib.seed_from_env())
    results = {}

    def do(job):
        # the seed only permutes the GOMAXPROCS sequence; the inputs are fixed files
        return job["id"], run_job(job, r, scratch)

    # stages: jobs without "after" first, then dependants (their input = first completed run's file)
    pending = list(jobs)
    finished = set()
    while pending:
        ready = [j for j in pending if "after" not in j or j["after"]["id"] in finished]
        if not ready:
            break
        runnable = []
        for j in ready:
            if "after" in j:
                prev = results[j["after"]["id"]]
                src = next((x for x in prev if x["rc"] == 0 and j["stage_file"] in x["files"]), None)
                if src is None:
                    results[j["id"]] = []
                    finished.add(j["id"])
                    continue
                os.makedirs(j["stage"], exist_ok=True)
                open(os.path.join(j["stage"], j["stage_file"]), "wb").write(src["files"][j["stage_file"]])
            runnable.append(j)
        rng.shuffle(runnable)
        with concurrent.futures.ThreadPoolExecutor(max_workers=8) as ex:
            for jid, runs in ex.map(do, runnable):
                results[jid] = runs
                finished.add(jid)
        pending = [j for j in pending if j["id"] not in finished]
    return jobs, results, r


def judge(rep, jobs, results, r):
    listed = {f.get("id"): f for f in vlib.load_known_findings(PROP)}
    evaluations = 0
    nontrivial = set()
    per_tool = {}
    samples = []
    hang_total = 0
    violations = []
    known_hits = {}
    skipped = []
    for job in jobs:
        runs = results.get(job["id"]) or []
        if not runs:
            skipped.append({"job": job["kind"], "inputs": job["inputs"][:1], "why": "earlier stage produced no output"})
            continue
        done, hangs, diffs = compare_runs(job, runs)
        hang_total += hangs
        evaluations += len(runs)
        t = per_tool.setdefault(job["tool"], {"jobs": 0, "runs": 0, "hangs": 0, "rc0": 0, "artefact_bytes": 0})
        t["jobs"] += 1
        t["runs"] += len(runs)
        t["hangs"] += hangs
        ok0 = [x for x in done if x["rc"] == 0]
        t["rc0"] += len(ok0)
        if ok0:
            art = {n: b for n, b in ok0[0]["files"].items() if n != "<stdout>" and n != "cfg.json"}  # cfg.json: rewritten input
            size = sum(len(b) for b in art.values())
            t["artefact_bytes"] += size
            if size > 0 and len(done) >= 2:
                # non-trivial = the tool succeeded and wrote at least one non-empty artefact, compared over >= 2 runs
                nontrivial.add((job["kind"], tuple(job["inputs"][:1]), hashlib.sha1(b"".join(art[k] for k in sorted(art))).hexdigest()))
            if len(samples) < 6:
                samples.append({"tool": job["tool"], "kind": job["kind"], "input": job["inputs"][0],
                                "runs_compared": len(done), "artefacts": {n: len(b) for n, b in sorted(art.items())[:8]},
                                "identical": not diffs})
        elif done and len(samples) < 8:
            samples.append({"tool": job["tool"], "kind": job["kind"], "input": job["inputs"][0], "exit": done[0]["rc"],
                            "stderr_tail": done[0]["stderr"][-200:], "identical": not diffs})
        raced = [x for x in runs if x.get("race")]
        if raced:
            violations.append({"kind": "data-race", "job": job, "report": raced[0]["race"]})
        if not job.get("may_hang") and hangs:
            violations.append({"kind": "timeout", "job": job, "detail": "%d of %d runs exceeded %ds" % (hangs, len(runs), TIMEOUT)})
        # attribute every differing artefact
        unexplained = []
        for d in diffs:
            hit = None
            for fid, (pred, what) in SIGNATURES.items():
                if pred(job, d["name"], d["a"], d["b"]):
                    hit = fid
                    break
            if hit:
                known_hits.setdefault(hit, []).append((job, d))
            else:
                unexplained.append(d)
        if unexplained:
            violations.append({"kind": "nondeterministic-output", "job": job, "diffs": unexplained})
    rep.coverage.update({
        "evaluations": evaluations,
        "distinct_nontrivial": len(nontrivial),
        "rule": "each job = one tool invocation on fixed input files, run r=%d times in fresh processes with GOMAXPROCS cycling "
                "1/2/16; exit code, stdout and every written file byte-compared against the first run; non-trivial = tool exited 0 "
                "and wrote a non-empty artefact that was compared over >= 2 completed runs; distinct = distinct (job kind, input, "
                "artefact digest)" % r,
        "samples": samples,
        "traces_validated_against_impl": evaluations,
        "input_distribution": {"runs_per_job": r, "per_tool": per_tool, "bondgo_runs_hung_or_deadlocked_(C12)": hang_total,
                               "jobs": len(jobs), "skipped": skipped},
    })
    return violations, known_hits, listed


def report(rep, violations, known_hits, listed, pr, diag, static):
    # known findings first
    for fid, hits in sorted(known_hits.items()):
        what = SIGNATURES[fid][1]
        job, d = hits[0]
        if fid in listed:
            rep.known("%s: %s (seen in %d artefact comparisons, e.g. %s on %s)"
                      % (fid, listed[fid].get("what_fails", what), len(hits), d["name"], job["inputs"][0]))
        else:
            rep.violation({"property": PROP, "kind": "nondeterministic-output", "finding_signature": fid, "what": what,
                           "tool": job["tool"], "argv": job["argv"], "inputs": job["inputs"], "artefact": d["name"],
                           "first_difference": first_diff_excerpt(d["a"], d["b"]),
                           "sha1_run_a": hashlib.sha1(d["a"]).hexdigest(), "sha1_run_b": hashlib.sha1(d["b"]).hexdigest(),
                           "note": "matches the signature of proposed known finding %s (docs/C07.md); not listed in known_findings.json "
                                   "and the fix patch repo_patches/C07-*.diff is not applied" % fid,
                           "job_kind": job["kind"], "replay": "python3 tools/check.py C07 --replay <this file>"}, tag="finding=" + fid)
    # one VIOLATION line per (tool, job kind, artefact): further inputs with the same symptom are listed in it
    seen_causes = {}
    merged = []
    for v in violations:
        if v["kind"] == "nondeterministic-output":
            cause = (v["job"]["tool"], v["job"]["kind"], v["diffs"][0]["name"])
            if cause in seen_causes:
                seen_causes[cause].append(v["job"]["inputs"][0])
                continue
            seen_causes[cause] = v["also_on_inputs"] = []
        merged.append(v)
    for v in merged:
        job = v["job"]
        if v["kind"] == "data-race":
            # goroutines of a build tool write shared memory without synchronisation: the artefact depends on
            # goroutine timing (the repeated runs may or may not hit the lost update); the race detector's
            # report is the witness
            rep.violation({"property": PROP, "kind": "data-race-in-build-tool", "tool": job["tool"], "argv": job["argv"],
                           "inputs": job["inputs"], "race_report": v["report"], "job_kind": job["kind"],
                           "replay": "python3 tools/check.py C07 --replay <this file>"})
            continue
        if v["kind"] == "timeout":
            rep.violation({"property": PROP, "kind": "timeout", "tool": job["tool"], "argv": job["argv"], "inputs": job["inputs"],
                           "detail": v["detail"], "job_kind": job["kind"]})
            continue
        d = v["diffs"][0]
        rep.violation({"property": PROP, "kind": "nondeterministic-output", "tool": job["tool"], "argv": job["argv"],
                       "inputs": job["inputs"], "artefact": d["name"], "other_differing_artefacts": [x["name"] for x in v["diffs"][1:6]],
                       "first_difference": first_diff_excerpt(d["a"], d["b"]),
                       "sha1_run_a": hashlib.sha1(d["a"]).hexdigest(), "sha1_run_b": hashlib.sha1(d["b"]).hexdigest(),
                       "same_symptom_on_inputs": v.get("also_on_inputs", []),
                       "job_kind": job["kind"], "replay": "python3 tools/check.py C07 --replay <this file>"})
    if not pr["ok"]:
        unclassified, changed, unsorted, stale = diag
        broken = list(pr["broken"])
        if unclassified:
            broken.append("unclassified nondeterminism sites (new `range` over a map / clock / rand / go): "
                          + "; ".join("%s [%s] line %d" % (u["site"], u["class"], u["line"]) for u in unclassified[:8]))
        if changed:
            broken.append("sites whose loop body changed class: "
                          + "; ".join("%s now [%s]%s, table has %s" % (c["site"], c["class_now"], (" = " + c["now"][:300]) if c.get("now") else "",
                                                                       c["class_in_table"]) for c in changed[:8]))
        if unsorted:
            broken.append("table rows out of order (keep BMV/SchedExpect.lean sorted by id): " + "; ".join(unsorted[:5]))
        # the wider search is the repeated-run comparison above
        if not rep.violations:
            rep.violation({"property": PROP, "kind": "proof-obligation-broken", "broken": broken,
                           "unclassified_sites": unclassified, "changed_sites": changed,
                           "searched": "repeated fresh-process runs of all five tools on the corpus: %s"
                                       % ("no unexplained difference" if not violations else "differences reported separately")},
                          no_failing_input=True)
        else:
            rep.notes.append({"proof_obligation_broken": broken})
    rep.coverage["static_table"] = static


def _oracle():
    return os.path.join(vlib.LEAN, ".lake", "build", "bin", EXE)


def oracle_crosscheck(rep, diag, jobs, results, sites=None):
    """the compiled Lean model (a) repeats the table comparison, (b) replays neuralbond's cpdef loop:
    for every completed neuralbond run the node order is read off the emitted file, the model's
    `cpdefLines` of that order must be exactly the emitted lines, and `isort` of every run's order must
    be one and the same list (the walk is over the same key set whatever the order)"""
    problems = []
    if not os.path.exists(_oracle()):
        return ["oracle-c07 was not built"], 0
    pat = re.compile(r"^%meta cpdef (\S+) fragcollapse:(\S+)$")
    orders = []
    owner = []
    for job in jobs:
        if job["tool"] != "neuralbond":
            continue
        for x in results.get(job["id"]) or []:
            if x["rc"] != 0 or "net.basm" not in x["files"]:
                continue
            lines = [l for l in x["files"]["net.basm"].decode("utf-8", "replace").split("\n")]
            tail = []
            for l in reversed(lines):
                m = pat.match(l)
                if m and m.group(1) == m.group(2):
                    tail.append((m.group(1), l))
                elif l.strip() == "":
                    continue
                else:
                    break
            tail.reverse()
            if tail:
                orders.append(tail)
                owner.append(job["id"])
    stdin = "".join("PERM " + ",".join(n for n, _ in o) + "\n" for o in orders)
    rc, so, se = vlib.run([_oracle()], input_bytes=stdin.encode(), timeout=120)
    if rc != 0:
        return ["oracle-c07 failed: " + se[-300:]], 0
    out = so.splitlines()
    cov = next((l.split()[1] for l in out if l.startswith("COVERED ")), "?")
    bad = next((l.split()[1] for l in out if l.startswith("BADKEYS ")), "?")
    py_cov = "true" if not diag[0] and not diag[1] and not diag[2] else "false"
    okeys = sorted(l.split()[1] for l in out if l.startswith("SITE "))
    same_table = sites is None or okeys == sorted(str(int(x["key"], 16)) for x in sites)
    if not same_table:
        # lean/BMV/Gen/MapRanges.lean and the oracle binary are shared between concurrently running C07 checks
        # (e.g. one against /repo and one against a scratch worktree): the oracle was linked from the other
        # run's table, its verdict says nothing about this one
        rep.notes.append("oracle-c07 was built from another concurrently running C07 check's site table; table cross-check skipped")
    elif cov != py_cov:
        problems.append("oracle says COVERED %s, driver's reading of the table says %s" % (cov, py_cov))
    if bad != "0":
        problems.append("oracle: %s table rows carry a wrong key" % bad)
    sorts = [l[5:] for l in out if l.startswith("SORT ")]
    cpdefs = [l[6:] for l in out if l.startswith("CPDEF ")]
    if len(sorts) != len(orders) or len(cpdefs) != len(orders):
        problems.append("oracle answered %d/%d PERM lines" % (len(sorts), len(orders)))
    else:
        for jid in sorted(set(owner)):
            mine = {x for x, o in zip(sorts, owner) if o == jid}
            if len(mine) > 1:
                problems.append("neuralbond runs of one job walked different key sets: " + " / ".join(sorted(mine)[:2])[:300])
        for o, c in zip(orders, cpdefs):
            if c != "|".join(l for _, l in o):
                problems.append("model cpdefLines differs from neuralbond's emitted lines for order " + ",".join(n for n, _ in o)[:200])
                break
    return problems, len(orders)


def static_summary(sites, rows, diag):
    unclassified, changed, unsorted, stale = diag
    live = {s["key"] for s in sites}
    verdicts = {}
    open_rows = []
    for r in rows:
        if r["key"] not in live:
            continue
        k = r["verdict"].split(" ")[0] + ((" " + r["verdict"].split(" ")[1]) if r["verdict"].startswith(".thm") else "")
        verdicts[k] = verdicts.get(k, 0) + 1
        if r["verdict"].startswith(".unproved") or r["verdict"].startswith(".finding"):
            open_rows.append({"site": r["id"], "class": r["cls"], "verdict": r["verdict"][:220]})
    kinds = {}
    for s in sites:
        kinds[s["kind"]] = kinds.get(s["kind"], 0) + 1
    return {"sites_in_current_source": len(sites), "by_kind": kinds,
            "accepted_by_generic_sorted_keys_rule": [s["id"] for s in sites if s["class"] == "sortedkeys"], "verdicts_of_live_rows": verdicts,
            "rows_without_live_site": stale, "unclassified": unclassified, "class_changed": changed,
            "open_sites_(no_theorem;_unproved_or_finding)": open_rows}


def run(rep):
    import time
    thorough = rep.tier == "thorough"
    t0 = time.monotonic()
    phase = rep.coverage.setdefault("phase_s", {})
    hbin = vlib.go_build("c07")
    build_clis()
    phase["go_build"] = round(time.monotonic() - t0, 1)
    t1 = time.monotonic()
    gen = regenerate(hbin)
    phase["extract"] = round(time.monotonic() - t1, 1)
    sites = gen["sites"]
    rows = read_expect()
    diag = table_diagnosis(sites, rows)
    t1 = time.monotonic()
    pr = vlib.prove(PROP, MODULES, exes=[EXE], leanchecker=thorough)
    phase["prove"] = round(time.monotonic() - t1, 1)
    if gen.get("problems"):
        pr["ok"] = False
        pr["broken"].append("extractor problems: " + "; ".join(gen["problems"][:3]))
    rep.add_proof(pr, "go run harness/cmd/c07 extract /repo > lean/BMV/Gen/MapRanges.lean && lake build BMV.Props.C07 && "
                      "lake env lean <#audit_module BMV.Props.C07>" + (" && lake env leanchecker BMV.Props.C07" if thorough else ""),
                  ["harness/cmd/c07: go/parser + go/types site extractor and its syntactic classifier (appends / concat / output / early "
                   "exit / keyed write / sorted afterwards)",
                   "lean/BMV/SchedExpect.lean: HAND-WRITTEN verdict per site; that a Go loop meets the hypotheses of the theorem its row "
                   "cites (frame condition, distinct keys, state-independent failure test) is read from the code, not proved",
                   "BMV.Sched models of ImportString / symbolTagger / section walks / getReqs consumers are hand-written; tied by the "
                   "site table (identity + class) and by repeated runs, not by an input/output correspondence",
                   "FNV-1a-64 keys of table rows (recomputed from the row strings by the Lean interpreter at compile time; a collision "
                   "between a new site and an old row is the residual 2^-64 risk)",
                   "Go library facts used as parameters: sort.Strings / sort.Sort / slices.Sort sort by a total order; strings.Split "
                   "inverts strings.Join on comma-free names; a map holds each key once"])
    rep.assumptions += [
        "PARTIAL: process-level map randomisation is modelled as a permutation parameter; for sites with verdict .unproved / .finding "
        "there is no theorem and the claim rests on repeated runs (listed under coverage.static_table)",
        "stderr is not compared (log timestamps by the `log` package, panic traces with addresses); -d / -v debug traces are not artefacts",
        "bondgo runs that hit the %ds timeout or die with 'all goroutines are asleep - deadlock' are the C12 allocator/monitor "
        "deadlock; they produce no artefact and are not compared (counted in input_distribution); the completed runs are" % TIMEOUT,
        "simulation / emulation / evolutionary / redeployer files of pkg/bondmachine are outside the walked set (C09, C17)",
        "symbol-table keys \"rom.<section>.<label>\" are injective in (section, label): names contain no '.'",
    ]
    rep.coverage["unmodelled"] = ["extra modules with cluster / board map files (etherbond, udpbond, bondirect, uart, bmapi): sites "
                                  "classified .unproved, not exercised by the corpus",
                                  "bondgo multi-goroutine programs with channels", "flopoco-backed number types (external binary)"]
    t1 = time.monotonic()
    jobs, results, r = correspondence(rep, thorough)
    phase["tool_runs"] = round(time.monotonic() - t1, 1)
    violations, known_hits, listed = judge(rep, jobs, results, r)
    oprob, nmodel = oracle_crosscheck(rep, diag, jobs, results, sites)
    rep.coverage["model_walks_replayed_against_neuralbond_output"] = nmodel
    if oprob:
        pr["ok"] = False
        pr["broken"] += ["model/oracle cross-check: " + x for x in oprob]
    report(rep, violations, known_hits, listed, pr, diag, static_summary(sites, rows, diag))


def replay(rep, path):
    obj = json.load(open(path))
    build_clis()
    kind, inp = obj.get("job_kind"), (obj.get("inputs") or [None])[0]
    if not kind:
        # a broken proof obligation: re-run the static part
        hbin = vlib.go_build("c07")
        gen = regenerate(hbin)
        rows = read_expect()
        diag = table_diagnosis(gen["sites"], rows)
        pr = vlib.prove(PROP, MODULES, exes=[EXE])
        rep.add_proof(pr, "lake build BMV.Props.C07", [])
        rep.coverage.update({"evaluations": len(gen["sites"]), "distinct_nontrivial": len(gen["sites"]),
                             "rule": "replay of " + path, "samples": [obj.get("broken")]})
        if not pr["ok"]:
            rep.violation({"property": PROP, "kind": "proof-obligation-broken", "broken": pr["broken"],
                           "unclassified_sites": diag[0], "changed_sites": diag[1]}, no_failing_input=True)
        return
    jobs, results, r = correspondence(rep, True if obj.get("thorough") else False)
    keep = [j for j in jobs if j["kind"] == kind and j["inputs"][0] == inp] or [j for j in jobs if j["kind"] == kind]
    violations, known_hits, listed = judge(rep, keep, results, r)
    pr = {"ok": True, "broken": []}
    report(rep, violations, known_hits, listed, pr, ([], [], [], []), {})
    rep.coverage.setdefault("obligations", 1)
    rep.coverage.setdefault("discharged", 1)
    rep.coverage.setdefault("checker_cmd", "replay: repeated fresh-process runs of " + kind)
    rep.coverage.setdefault("trusted_base", vlib.TRUSTED_BASE_COMMON)
