"""C09 — simulation results do not depend on scheduling or on other simulations.  (claimed level: partial)

proof:          lean/BMV/Props/C09.lean on the model BMV.SchedSim: step_sched_indep (disjoint footprints
                commute: any complete schedule of a tick gives the same state), sim_isolation (any
                interleaving of any number of simulations: each one's state is its own events run alone),
                barrier_ok (token/answer protocol as a transition system: movement never overlaps a
                step), globals_break_it / globals_break_isolation (counterexamples with the pipeline
                phase in the shared opcode object).
regenerated:    harness/cmd/c09 `extract` (go/ast over pkg/procbuilder): reference-typed fields of every
                opcode type, writes through them inside Simulate, package-level variables assigned in
                Simulate -> lean/BMV/Gen/OpcodeState.lean; obligation opcode_state_matches.
correspondence: every generated case (1..5 cores, 8/16/32 bit, programs over rset/inc/add/addp/multp/nop/
                j/r2o, ring-bonded variants with i2r, one dynamic-family case) is simulated on the real
                bondmachine.VM (a) alone in a fresh process with GOMAXPROCS=1, (b) in one process after all
                other cases and (c) concurrently with 1..7 other simulations of the same and other
                machines, under several GOMAXPROCS values and seeded yields of the verif hook; the full
                digest after every VM.Step is compared between all runs and, for cases inside the modelled
                ISA that use no Globals, with the trace of the Lean model.  Thorough: the same batch under
                the race detector.
"""
import json
import os
import re
import vlib

LEVEL = "proof"
PROP = "C09"
MODULES = ["BMV.Props.C09"]
EXE = "oracle-c09"
GEN = os.path.join(vlib.LEAN, "BMV", "Gen", "OpcodeState.lean")
KF = "C09-opcode-singleton-phase"

OP2TYPE = [(re.compile(r"^addp$"), "Addp"), (re.compile(r"^multp$"), "Multp"), (re.compile(r"^divp$"), "Divp"),
           (re.compile(r"^(add|mult|div)fps\d+f\d+$"), "FixedPoint"),
           (re.compile(r"^(add|mult|div)fxps\d+f\d+$"), "FXP"),
           (re.compile(r"^(add|mult|div)lqs\d+t\d+$"), "LinearQuantizer")]


def _oracle():
    return os.path.join(vlib.LEAN, ".lake", "build", "bin", EXE)


def kvs(fields):
    d = {}
    for f in fields:
        if "=" in f:
            k, v = f.split("=", 1)
            d[k] = v
    return d


def case_ops(spec):
    d = kvs(spec.split())
    ops = set()
    for p in d.get("progs", "").split("/"):
        for ins in p.split(","):
            if ins:
                ops.add(ins.split("_")[0])
    return ops


def domain_types_used(spec, globals_types):
    used = set()
    for op in case_ops(spec):
        for rx, ty in OP2TYPE:
            if rx.match(op) and ty in globals_types:
                used.add(ty)
    return used


def parse_runs(text):
    """harness output -> list of runs {hdr{}, trace[list]}"""
    runs, cur = [], {}
    byid = {}
    for l in text.splitlines():
        if l.startswith("R "):
            f = l.split()
            cur = {"hdr": kvs(f[2:]), "trace": [], "line": l}
            byid[f[1]] = cur
            runs.append(cur)
        elif l.startswith("T "):
            f = l.split()
            if f[1] in byid:
                byid[f[1]]["trace"].append(f[3])
    return runs


def registry_growth(text):
    """G lines of one harness process (sizes of bmnumbers.AllTypes / AllMatchers / procbuilder.Allopcodes,
    printed only while no simulation runs): -> [(case id after which they differ, first, now)]"""
    first, res = None, []
    for l in text.splitlines():
        if l.startswith("G "):
            d = kvs(l.split()[1:])
            sizes = {k: d[k] for k in ("types", "matchers", "opcodes") if k in d}
            if first is None:
                first = sizes
            elif sizes != first:
                res.append((d.get("after"), first, sizes))
                first = sizes
    return res


def parse_oracle(text):
    cfg, x, traces = {}, {}, {}
    for l in text.splitlines():
        f = l.split()
        if l.startswith("CFG "):
            cfg = kvs(f[1:])
        elif l.startswith("X "):
            x[f[1]] = kvs(f[2:])
        elif l.startswith("T "):
            traces.setdefault(f[1], []).append(f[3])
    return cfg, x, traces


def first_diff(a, b):
    for i, (p, q) in enumerate(zip(a, b)):
        if p != q:
            return i, p, q
    if len(a) != len(b):
        return min(len(a), len(b)), "<len %d>" % len(a), "<len %d>" % len(b)
    return None


def regenerate(hbin):
    rc, gen, err = vlib.run([hbin, "extract", vlib.REPO], timeout=120, env=vlib.goenv())
    if rc != 0 or "def refFields" not in gen:
        raise vlib.BuildError("go/ast extractor failed on %s: %s" % (vlib.REPO, err[-2000:]))
    old = open(GEN).read() if os.path.exists(GEN) else None
    if old != gen:
        open(GEN, "w").write(gen)
    return gen


def henv(gomaxprocs, sched_seed):
    e = vlib.goenv()
    e["GOMAXPROCS"] = str(gomaxprocs)
    e["VERIF_SCHED_SEED"] = str(sched_seed)
    return e


def run_alone(hbin, spec):
    rc, so, se = vlib.run([hbin, "alone", spec], timeout=120, env=henv(1, 0))
    rs = parse_runs(so)
    if rc != 0 or not rs:
        return {"hdr": {"err": "harness rc=%s %s" % (rc, se[-300:])}, "trace": [], "line": "alone " + spec}
    rs[0]["growth"] = registry_growth(so)
    return rs[0]


def run_batch(hbin, casefile, gomaxprocs, sched_seed, timeout=900):
    rc, so, se = vlib.run([hbin, "batch", casefile], timeout=timeout, env=henv(gomaxprocs, sched_seed))
    GROWTH.extend(("batch gomaxprocs=%s seed=%s" % (gomaxprocs, sched_seed), g) for g in registry_growth(so))
    return rc, parse_runs(so), se


FIT_DRIVER = os.path.join(vlib.HARNESS, "cmd", "c09", "simfinetune_fitness_test.go.txt")


def build_fitness_driver(race=False):
    """cmd/simfinetune is package main: our driver is compiled into it as a test file through a build
    overlay (the repository is not touched)"""
    os.makedirs(vlib.BIN, exist_ok=True)
    out = os.path.join(vlib.BIN, "simfinetune-c09%s.test" % ("-race" if race else ""))
    ov = os.path.join(vlib.BIN, "simfinetune-c09.overlay.json")
    json.dump({"Replace": {os.path.join(vlib.REPO, "cmd", "simfinetune", "zz_verif_c09_test.go"): FIT_DRIVER}},
              open(ov, "w"))
    env = vlib.goenv()
    cmd = ["go", "test", "-c", "-vet=off", "-tags", "verif", "-overlay", ov]
    if race:
        cmd.append("-race")
        env["CGO_ENABLED"] = "1"
    with vlib.Lock("go"):
        if os.path.exists(out):
            os.remove(out)
        rc, so, se = vlib.run(cmd + ["-o", out, "./cmd/simfinetune"], cwd=vlib.REPO, env=env, timeout=900)
    if rc != 0 or not os.path.exists(out):
        raise vlib.BuildError("go test -c of cmd/simfinetune with the C09 driver failed:\n%s%s" % (so, se))
    return out


def run_fitness(tbin, spec, timeout=600):
    """-> ([(W, i, fitness)], stderr+stdout text)"""
    env = vlib.goenv()
    env["VERIF_C09_FIT"] = spec
    env["GOMAXPROCS"] = "16"
    rc, so, se = vlib.run([tbin, "-test.run", "TestVerifC09Fitness", "-test.timeout", "%ds" % timeout],
                          timeout=timeout + 30, env=env, cwd=vlib.scratch_dir("c09" + vlib._REPO_TAG))
    vals = []
    for l in so.splitlines():
        m = re.match(r"F W=(-?\d+) i=(\d+) fitness=(\S+)", l)
        if m:
            vals.append((int(m.group(1)), int(m.group(2)), m.group(3)))
    return vals, so + se


def fitness_findings(spec, race_spec):
    """simfinetune's FitnessFunction with 1 vs several workers -> (stats, violation dict or None)"""
    vals, _ = run_fitness(build_fitness_driver(), spec)
    st = {"fitness_evaluations": len(vals), "fitness_spec": spec}
    if not vals:
        return st, {"kind": "proof-or-correspondence-broken", "broken": ["simfinetune fitness driver printed nothing"],
                    "no_input": True}
    ref = [v for w, i, v in vals if w == 1]
    refv = ref[0] if ref else vals[0][2]
    bad = [(w, i, v) for w, i, v in vals if v != refv]
    if bad:
        return st, {"kind": "fitness-depends-on-workers", "replay_spec": spec,
                    "what": "cmd/simfinetune FitnessFunction on the same candidate and records: fitness %s with 1 worker, "
                            "%s with %d workers (evaluation %d); %d of %d evaluations differ" % (
                                refv, bad[0][2], bad[0][0], bad[0][1], len(bad), len(vals)),
                    "values": ["W=%d i=%d %s" % x for x in vals][:40]}
    rvals, text = run_fitness(build_fitness_driver(race=True), race_spec)
    blocks = races(text)
    st["fitness_race_evaluations"] = len(rvals)
    st["fitness_race_reports"] = len(blocks)
    if blocks:
        return st, {"kind": "data-race-simfinetune", "replay_spec": race_spec, "report": blocks[0][:6000],
                    "reports_total": len(blocks),
                    "what": "race detector on cmd/simfinetune FitnessFunction with several workers"}
    return st, None


GROWTH = []   # (which process, (case id, sizes before, sizes after)) collected by run_batch


def corpus_cases():
    d = os.path.join(vlib.CORPUS, PROP)
    res = []
    if os.path.isdir(d):
        for f in sorted(os.listdir(d)):
            if f.endswith(".txt"):
                for l in open(os.path.join(d, f)):
                    l = l.strip()
                    if l.startswith("C "):
                        res.append(l[2:])
    return res


def renumber(specs):
    out = []
    for i, s in enumerate(specs):
        out.append(re.sub(r"\bid=\d+", "id=%d" % (i + 1), s))
    return out


def configs(seed, thorough):
    base = [(1, 0), (16, 0)]
    n = 12 if thorough else 4
    for i in range(n):
        base.append(([16, 4, 2, 8][i % 4], seed * 1000 + i + 1))
    return base


def compare_all(specs, refs, batches, orc):
    """-> (stats, diffs, ties); diff = a Go run that differs from the fresh-alone reference of its case;
    tie = Go runs agree with each other but not with the Lean model (or harness error)"""
    cfg, ox, otr = orc
    stats = {"runs": 0, "by_mode": {}, "model_compared": 0, "ticks": 0, "free_cases": 0, "errors": 0}
    diffs, ties = [], []
    distinct = set()
    for cid, spec in specs.items():
        ref = refs[cid]
        if ref["hdr"].get("err", "-") != "-":
            stats["errors"] += 1
            ties.append({"case": spec, "why": "reference run failed: " + ref["hdr"].get("err", "?")})
            continue
        info = ox.get(cid, {})
        free = info.get("model") == "1" and info.get("free") == "1"
        if free:
            stats["free_cases"] += 1
            d = first_diff(ref["trace"], otr.get(cid, []))
            stats["model_compared"] += 1
            if d:
                ties.append({"case": spec, "why": "Go (fresh, alone) differs from the Lean model", "tick": d[0],
                             "go": d[1], "model": d[2]})
    for (gmp, ss), runs in batches:
        for r in runs:
            h = r["hdr"]
            cid = h.get("id")
            if cid not in specs:
                continue
            stats["runs"] += 1
            stats["ticks"] += len(r["trace"])
            stats["by_mode"][h["mode"]] = stats["by_mode"].get(h["mode"], 0) + 1
            distinct.add((cid, h["mode"], h.get("k"), gmp, ss))
            if h.get("err", "-") != "-":
                stats["errors"] += 1
                diffs.append({"case": specs[cid], "run": r["line"], "tick": -1, "ref": "", "got": "error " + h["err"]})
                continue
            d = first_diff(refs[cid]["trace"], r["trace"])
            if d:
                diffs.append({"case": specs[cid], "run": r["line"], "tick": d[0], "ref": d[1], "got": d[2]})
            info = ox.get(cid, {})
            if info.get("model") == "1" and info.get("free") == "1":
                stats["model_compared"] += 1
    stats["distinct"] = len(distinct)
    return stats, diffs, ties


def races(stderr_text):
    blocks = []
    for b in stderr_text.split("=================="):
        if "WARNING: DATA RACE" in b:
            blocks.append(b.strip())
    return blocks


def run(rep):
    thorough = rep.tier == "thorough"
    hbin = vlib.go_build("c09")
    gen = regenerate(hbin)
    pr = vlib.prove(PROP, MODULES, exes=[EXE], leanchecker=thorough)
    rep.add_proof(pr, "lake build BMV.Props.C09 oracle-c09 && lake env lean <#audit_module BMV.Props.C09>"
                  + (" && lake env leanchecker BMV.Props.C09" if thorough else ""),
                  ["BMV.SchedSim is a hand-written model: abstract per-processor steps + Globals, the barrier "
                   "protocol of VM.Step/Processor_execute as a transition system, and a small ISA "
                   "(rset/inc/add/addp/multp/nop/j/r2o) for the oracle; tied by the regenerated opcode-state table "
                   "and by digest comparison",
                   "harness/cmd/c09/extract.go (go/ast: reference-typed fields of opcode structs, syntactic "
                   "write-through detection inside Simulate, package-level variables assigned in Simulate)",
                   "the verif hook verifYield (repo_patches/C09-hook.diff) as the only means to perturb the schedule; "
                   "Go's race detector in the thorough tier"])
    hook = os.path.exists(os.path.join(vlib.REPO, "pkg", "bondmachine", "verif_on.go"))
    rep.assumptions += [
        "PARTIAL: that the Go step of a processor touches only its own VM plus the declared Globals (footprints) and "
        "that no execution has a data race is runtime truth: observed by digests under perturbed schedules / "
        "concurrent simulations and by the race detector (thorough), not proved",
        "steps are atomic in the model; with disjoint footprints every fine-grained interleaving is equivalent to a "
        "serial order, with shared Globals the model already differs at step granularity",
        "multi-valued SimDelays (simbox.DelayDistribution.GetValue draws from the process-wide math/rand and ranges "
        "over a map) are random by design and outside the determinism claim; a third of the cases run with ONE "
        "shared *simbox.SimDelays of single-valued (deterministic) distributions, the others with nil",
        "bmnumbers.EventuallyCreateType / procbuilder.EventuallyCreateInstruction append to package-level tables "
        "without synchronisation; the harness serialises machine construction and uses only pre-registered types",
        "verif hook applied to the tree under test: %s (without it only GOMAXPROCS and concurrency vary)" % hook,
    ]
    listed = {f.get("id") for f in vlib.load_known_findings(PROP)}

    d = vlib.scratch_dir("c09" + vlib._REPO_TAG)
    rc, so, se = vlib.run([hbin, "gen", rep.tier], timeout=120, env=vlib.goenv())
    if rc != 0:
        raise RuntimeError("h-c09 gen failed: " + se[-1000:])
    speclist = renumber(corpus_cases() + [l[2:] for l in so.splitlines() if l.startswith("C ")])
    casefile = os.path.join(d, "cases.txt")
    open(casefile, "w").write("".join("C %s\n" % s for s in speclist))
    specs = {kvs(s.split())["id"]: s for s in speclist}

    orc = ({}, {}, {})
    if os.path.exists(_oracle()):
        rc, mo, me = vlib.run([_oracle()], input_bytes=open(casefile, "rb").read(), timeout=600)
        if rc != 0:
            raise RuntimeError("oracle failed: " + me[-1000:])
        orc = parse_oracle(mo)
    cfg = orc[0]
    globals_types = {g.split(".")[0] for g in cfg.get("globals", "").split(",") if g}

    del GROWTH[:]
    refs = {cid: run_alone(hbin, s) for cid, s in specs.items()}
    for cid, r in refs.items():
        GROWTH.extend(("alone (fresh process)", g) for g in r.get("growth", []))
    batches = []
    for gmp, ss in configs(rep.seed, thorough):
        rc, runs, se = run_batch(hbin, casefile, gmp, ss)
        batches.append(((gmp, ss), runs))
        if rc != 0:
            batches[-1][1].append({"hdr": {"id": next(iter(specs)), "mode": "batch", "err": "harness rc=%s" % rc},
                                   "trace": [], "line": "batch gomaxprocs=%s seed=%s: %s" % (gmp, ss, se[-400:])})
    stats, diffs, ties = compare_all(specs, refs, batches, orc)

    # race detector: thorough = the whole batch; quick = the cases that share the delay table (shared
    # *simbox.SimDelays, as cmd/simfinetune hands to its workers) plus the corpus
    race_blocks = []
    rbin = vlib.go_build("c09", race=True)
    if thorough:
        racefile = casefile
    else:
        sub = [s_ for s_ in speclist if " delays=1 " in s_ or " sps=" in s_] + speclist[:len(corpus_cases())]
        racefile = os.path.join(d, "race-cases.txt")
        open(racefile, "w").write("".join("C %s\n" % s_ for s_ in sub))
    race_specs = [l[2:].strip() for l in open(racefile) if l.startswith("C ")]
    for ss in ([rep.seed * 1000 + 99, 0] if thorough else [rep.seed * 1000 + 99]):
        e = henv(16, ss)
        e["CGO_ENABLED"] = "1"
        e["VERIF_C09_ROUNDS"] = "8"
        rc, so, se = vlib.run([rbin, "batch", racefile], timeout=2400, env=e)
        race_blocks += races(se)
        rruns = parse_runs(so)
        batches.append(((16, "race-%s" % ss), rruns))
        stats["race_runs"] = stats.get("race_runs", 0) + len(rruns)
    stats["race_reports"] = len(race_blocks)
    # the race runs' digests are compared like every other run
    st2, diffs2, _ = compare_all(specs, refs, batches[-(2 if thorough else 1):], orc)
    diffs += diffs2
    stats["runs"] += st2["runs"]
    stats["distinct"] = stats.get("distinct", 0) + st2.get("distinct", 0)

    # cmd/simfinetune: the fitness of a candidate must not depend on the number of concurrent workers
    fit_spec = "2:%d:%d:1,4,8,16" % (150, 12 if thorough else 6)
    fst, fit_violation = fitness_findings(fit_spec, "2:60:%d:4,8" % (6 if thorough else 3))
    stats.update(fst)

    samples = [{"case": speclist[0], "reference_trace_head": refs[kvs(speclist[0].split())["id"]]["trace"][:3]},
               {"case": speclist[-3]}]
    rep.coverage.update({
        "evaluations": stats["runs"] + len(refs),
        "distinct_nontrivial": stats.get("distinct", 0),
        "rule": "seeded cases (VERIF_SEED) + fixed cases (the two-core addp counterexample, a dynamic-family case) + "
                "corpus; every case: 1 fresh-process reference run + per configuration (GOMAXPROCS, hook seed) one "
                "run after all earlier simulations and one concurrent group of 2..8 simulations; evaluations = Go "
                "simulations whose full per-tick digest was compared; distinct = distinct (case, mode, k, GOMAXPROCS, "
                "hook seed); non-trivial = every run executes >= 3 ticks of >= 1 core",
        "samples": samples,
        "traces_validated_against_impl": stats["model_compared"],
        "input_distribution": stats,
        "configurations": [{"gomaxprocs": g, "hook_seed": s} for (g, s), _ in batches],
        "tree_configuration": cfg,
        "hook_present": hook,
        "opcode_state": [l.strip() for l in gen.splitlines() if l.strip().startswith("(\"")],
        "simfinetune_fitness": {k: v for k, v in stats.items() if k.startswith("fitness")},
        "unmodelled": ["bonds / data movement in the Lean ISA (ring cases are compared Go-vs-Go only)",
                       "dynamic opcode families in the Lean ISA (Go-vs-Go only)",
                       "delay tables in the Lean ISA (delays=1 cases: Go-vs-Go + race detector); multi-valued (random) SimDelays",
                       "SinglePipelineSimulate's report assembly (covered by C15/C17 harnesses)"],
    })

    # ---- outcome ----
    known, real = [], []
    for df in diffs:
        used = domain_types_used(df["case"], globals_types)
        if used and KF in listed:
            known.append(df)
        else:
            df["uses_globals_opcodes"] = sorted(used)
            real.append(df)
    race_known, race_real = [], []
    for b in race_blocks:
        if re.search(r"procbuilder\.(%s)\.Simulate" % "|".join(sorted(globals_types) or ["<none>"]), b) and KF in listed:
            race_known.append(b)
        else:
            race_real.append(b)
    if known or race_known:
        ex = known[0] if known else None
        rep.known("%s: pipeline phase of %s lives in the process-wide opcode object; %d differing runs, %d race reports%s" % (
            KF, ",".join(sorted(globals_types)), len(known), len(race_known),
            (" e.g. case [%s] run [%s] tick %s: %s vs %s" % (ex["case"], ex["run"], ex["tick"], ex["ref"], ex["got"])) if ex else ""))
    stats["registry_growth_events"] = len(GROWTH)
    if GROWTH and not real:
        # simulations changed process-wide tables (number types / matchers / opcodes) although every type
        # and opcode they use was registered before the first simulation started
        where, (cid, before, after) = sorted(GROWTH, key=lambda g: (g[0] != "alone (fresh process)", len(specs.get(g[1][0], ""))))[0]
        rep.violation({"property": PROP, "kind": "global-state-grew",
                       "case": specs.get(cid, "?"), "process": where, "sizes_before": before, "sizes_after": after,
                       "what": "running the simulation(s) of this case changed the process-wide registries "
                               "(bmnumbers.AllTypes / AllMatchers / procbuilder.Allopcodes): state outside any VM "
                               "written by a simulation (the GlobalsFree hypothesis of sim_isolation fails)",
                       "events_total": len(GROWTH), "tree_configuration": cfg,
                       "replay": "python3 tools/check.py C09 --replay <this file>"})
        race_real = []   # the races on the same tables are the same defect
    if fit_violation:
        fv = dict(fit_violation)
        noin = fv.pop("no_input", False)
        fv.update({"property": PROP, "replay": "python3 tools/check.py C09 --replay <this file>"})
        rep.violation(fv, no_failing_input=noin)
    if real:
        # smallest case first; try to reproduce with the case alone in a batch (seq + conc copies of itself)
        real.sort(key=lambda x: (len(x["case"]), x["tick"]))
        df = real[0]
        small = os.path.join(d, "shrink.txt")
        open(small, "w").write("C %s\n" % df["case"])
        m = re.search(r"gomaxprocs=(\d+) seed=(\d+)", df["run"])
        gmp, ss = (int(m.group(1)), int(m.group(2))) if m else (16, 0)
        rc, runs, _ = run_batch(hbin, small, gmp, ss)
        cid = kvs(df["case"].split())["id"]
        shr = None
        for r in runs:
            dd = first_diff(refs[cid]["trace"], r["trace"])
            if dd:
                shr = {"case": df["case"], "run": r["line"], "tick": dd[0], "ref": dd[1], "got": dd[2]}
                break
        rep.violation({"property": PROP, "kind": "trace-depends-on-schedule-or-other-simulations",
                       "case": df["case"], "differing_run": df["run"], "first_differing_tick": df["tick"],
                       "reference_digest": df["ref"], "observed_digest": df["got"],
                       "reference": "fresh process, alone, GOMAXPROCS=1",
                       "uses_globals_opcodes": df.get("uses_globals_opcodes", []),
                       "reproduced_with_case_alone_in_batch": shr,
                       "batch_cases": speclist if shr is None else [df["case"]],
                       "differing_runs_total": len(real), "tree_configuration": cfg,
                       "broken_obligations": pr["broken"],
                       "replay": "python3 tools/check.py C09 --replay <this file>"})
    elif race_real:
        # shrink: does the smallest single case of the batch already race (its own concurrent copies)?
        for cand in sorted(race_specs, key=len)[:3]:
            f1 = os.path.join(d, "race-shrink.txt")
            open(f1, "w").write("C %s\n" % cand)
            e = henv(16, 1)
            e["CGO_ENABLED"] = "1"
            e["VERIF_C09_ROUNDS"] = "8"
            rc, so, se = vlib.run([rbin, "batch", f1], timeout=600, env=e)
            bl = [b for b in races(se)]
            if bl:
                race_real, race_specs = bl, [cand]
                break
        rep.violation({"property": PROP, "kind": "data-race", "report": race_real[0][:6000],
                       "reports_total": len(race_real), "batch_cases": race_specs,
                       "execution": "h-c09-race batch <batch_cases>, GOMAXPROCS=16: the simulations of one case run "
                                    "concurrently (2..8 at a time); cases with delays=1 share one *simbox.SimDelays",
                       "tree_configuration": cfg,
                       "replay": "python3 tools/check.py C09 --replay <this file>"})
    elif ties or not pr["ok"]:
        broken = list(pr["broken"])
        if ties:
            broken.append("correspondence BMV.SchedSim ISA vs bondmachine.VM digests")
        rep.violation({"property": PROP, "kind": "proof-or-correspondence-broken", "broken": broken,
                       "first_disagreement": ties[0] if ties else None, "tree_configuration": cfg,
                       "searched": "%d Go runs compared with their fresh-process reference: all equal" % stats["runs"]},
                      no_failing_input=True)


def replay(rep, path):
    hbin = vlib.go_build("c09")
    obj = json.load(open(path))
    if obj.get("kind") in ("fitness-depends-on-workers", "data-race-simfinetune"):
        v = None
        for attempt in range(4):
            if obj["kind"] == "fitness-depends-on-workers":
                st, v = fitness_findings(obj["replay_spec"], "2:60:3:4,8")
            else:
                st, v = fitness_findings("2:10:1:1", obj["replay_spec"])
            if v:
                break
        rep.coverage.update({"evaluations": st.get("fitness_evaluations", 0) + st.get("fitness_race_evaluations", 0),
                             "distinct_nontrivial": 2, "rule": "replay of " + path, "samples": [obj["replay_spec"]]})
        if v:
            v.pop("no_input", None)
            v["property"] = PROP
            rep.violation(v)
        return
    if obj.get("kind") == "global-state-grew":
        r = run_alone(hbin, obj["case"])
        rep.coverage.update({"evaluations": 1, "distinct_nontrivial": 2, "rule": "replay of " + path,
                             "samples": [obj["case"]]})
        if r.get("growth"):
            cid, before, after = r["growth"][0]
            rep.violation({"property": PROP, "kind": "global-state-grew", "case": obj["case"],
                           "process": "alone (fresh process)", "sizes_before": before, "sizes_after": after})
        return
    if obj.get("kind") == "data-race":
        rbin = vlib.go_build("c09", race=True)
        d = vlib.scratch_dir("c09" + vlib._REPO_TAG)
        f = os.path.join(d, "replay-race.txt")
        open(f, "w").write("".join("C %s\n" % s_ for s_ in obj.get("batch_cases", [])))
        blocks, n = [], 0
        for attempt in range(4):   # a race needs the right overlap: a few attempts
            e = henv(16, attempt)
            e["CGO_ENABLED"] = "1"
            e["VERIF_C09_ROUNDS"] = "8"
            rc, so, se = vlib.run([rbin, "batch", f], timeout=1800, env=e)
            n += len(parse_runs(so))
            blocks = races(se)
            if blocks:
                break
        rep.coverage.update({"evaluations": n, "distinct_nontrivial": max(2, len(obj.get("batch_cases", []))),
                             "rule": "replay (race detector) of " + path, "samples": obj.get("batch_cases", [])[:3] or ["-"]})
        if blocks:
            rep.violation({"property": PROP, "kind": "data-race", "report": blocks[0][:6000],
                           "reports_total": len(blocks), "batch_cases": obj.get("batch_cases", [])})
        return
    specs_l = obj.get("batch_cases") or ([obj["case"]] if obj.get("case") else [])
    fd = obj.get("first_disagreement") or {}
    if not specs_l and fd.get("case"):
        specs_l = [fd["case"]]
    d = vlib.scratch_dir("c09" + vlib._REPO_TAG)
    f = os.path.join(d, "replay.txt")
    open(f, "w").write("".join("C %s\n" % s for s in specs_l))
    specs = {kvs(s.split())["id"]: s for s in specs_l}
    m = re.search(r"gomaxprocs=(\d+) seed=(\d+)", obj.get("differing_run", ""))
    gmp, ss = (int(m.group(1)), int(m.group(2))) if m else (16, 0)
    refs = {cid: run_alone(hbin, s) for cid, s in specs.items()}
    rc, runs, se = run_batch(hbin, f, gmp, ss)
    n = 0
    target = kvs(obj["case"].split())["id"] if obj.get("case") else None
    for r in runs:
        cid = r["hdr"].get("id")
        if cid in refs and (target is None or cid == target):
            n += 1
            dd = first_diff(refs[cid]["trace"], r["trace"])
            if dd:
                rep.violation({"property": PROP, "kind": "trace-depends-on-schedule-or-other-simulations",
                               "case": specs[cid], "differing_run": r["line"], "first_differing_tick": dd[0],
                               "reference_digest": dd[1], "observed_digest": dd[2], "batch_cases": specs_l})
                break
    rep.coverage.update({"evaluations": n + len(refs), "distinct_nontrivial": max(2, n), "rule": "replay of " + path,
                         "samples": specs_l[:3] or ["-"]})
