"""C05 — an assembled BASM program means what its source says.

proof:          lean/BMV/Props/C05.lean about BMV.Basm.assemble (model of the pass pipeline of
                pkg/basm for the C05 subset) and BMV.Basm.refStep (direct interpretation of the
                source text): assemble_correct : C05_full (per processor, every environment, every
                run length, blocking IO included, one initial stutter for the jump to the entry),
                label table after the entry-line removal, opcode numbering, matcher effect,
                network composition.
tie:            (1) EXACT structural comparison: harness/cmd/c05 runs the real basm package
                in-process (ParseAssemblyString, RunAssembler, Assembler2BondMachine,
                GetBondMachine) on generated sources and dumps the machine; oracle-c05 parses the
                *same text* and prints `assemble src`; result class and every line of the machine
                text are compared.  (2) semantic: every processor of the emitted machine is stepped
                with the real procbuilder.VM under seeded port stimuli and its state after every
                tick is compared with the reference interpreter run on the source text.
"""
import json
import os
import vlib

LEVEL = "proof"
PROP = "C05"
MODULES = ["BMV.Props.C05"]
EXE = "oracle-c05"
MACH = ("M", "C", "W", "D", "II", "IO", "LK", "E")


def _oracle():
    return os.path.join(vlib.LEAN, ".lake", "build", "bin", EXE)


def run_pair(hbin, args, timeout=1200):
    rc, impl, err = vlib.run([hbin] + args, timeout=timeout, env=vlib.goenv())
    if rc != 0:
        raise RuntimeError("harness failed rc=%s: %s" % (rc, err[-2000:]))
    rc2, model, err2 = vlib.run([_oracle()], input_bytes=impl.encode(), timeout=timeout)
    if rc2 != 0:
        raise RuntimeError("oracle failed rc=%s: %s" % (rc2, err2[-2000:]))
    return impl, model


def cases(txt):
    res = []
    cur = None
    mode = None
    for l in txt.splitlines():
        if l.startswith("MODE "):
            mode = l
        elif l.startswith("CASE "):
            f = l.split()
            cur = {"head": l, "kind": f[2], "mustfail": f[3].endswith("=1"), "src": [], "R": None, "P": "", "mach": [], "WF": None,
                   "sims": {}, "cur": None}
            res.append(cur)
        elif cur is None:
            continue
        elif l.startswith("S ") or l == "S":
            cur["src"].append(l[2:])
        elif l.startswith("R "):
            cur["R"] = l
        elif l.startswith("P "):
            cur["P"] = l
        elif l.startswith("WF "):
            cur["WF"] = l
        elif l.startswith("DV "):
            cur.setdefault("DV", []).append(l)
        elif l.startswith("SIM "):
            cur["cur"] = l.split()[1]
            cur["sims"][cur["cur"]] = []
        elif l == "BSIM":
            cur["cur"] = "machine"
            cur["sims"]["machine"] = []
        elif l[:2] in ("V ", "X ") or l[:3] in ("BV ", "BX ") or l in ("T", "BT") or l.startswith("T "):
            if cur["cur"] is not None:
                cur["sims"][cur["cur"]].append(l)
        elif l.split(" ")[0] in MACH:
            cur["mach"].append(l)
    return mode, res


def fact(c, key):
    for f in c["P"].split()[1:]:
        k, v = f.split("=")
        if k == key:
            return v
    return None


def compare_sims(x, y, src):
    out = []
    for k, xs in x["sims"].items():
        ys = y["sims"].get(k, [])
        obs = lambda ls: [l for l in ls if l.startswith("X ") or l.startswith("BX ")]
        tick = -1
        xi = iter(obs(ys))
        stims = []
        for l in xs:
            if l.startswith("V ") or l.startswith("BV "):
                tick += 1
                stims.append(l)
                continue
            if not (l.startswith("X ") or l.startswith("BX ")):
                continue
            q = next(xi, None)
            if q is None or q.split()[1] in ("undefined", "noentry"):
                break
            if l != q:
                d = {"source": src, "cp": k, "tick": tick, "stims": stims, "impl": l, "ref": q,
                     "entryfirst": fact(y, "entryfirst"), "litjump": fact(y, "litjump")}
                if k == "machine":
                    d["what_differs"] = "external ports" if l.startswith("BX ") else "a processor's state inside the whole-machine simulation"
                out.append(("semantic", d))
                break
    return out


def compare_case(x, y):
    """x = implementation, y = model.  -> list of findings (kind, detail)"""
    out = []
    src = "\n".join(x["src"]) + "\n"
    failed = x["R"] is not None and x["R"].startswith("R err")
    if x["mustfail"]:
        if not failed:
            out.append(("unfit-accepted", {"source": src, "impl": x["R"]}))
        elif x["R"].startswith("R err panic"):
            out.append(("unfit-panic", {"source": src, "impl": x["R"]}))
    elif failed and x["R"].startswith("R err panic"):
        out.append(("panic", {"source": src, "impl": x["R"]}))
    if y["R"] == "R unsupported":
        # outside the model assembler.  Sources with ROM data sections still have a meaning the oracle interprets:
        # the data cells and the per-tick simulation are compared.
        if y.get("DV") and x["R"] == "R ok":
            cells = [int(l.split()[2], 2) for l in x["mach"] if l.startswith("D ")]
            want = [int(v) for l in y["DV"] for v in (l.split() + ["", ""])[2].split(",") if v != ""]
            if cells != want:
                out.append(("semantic", {"source": src, "cp": "data", "tick": -1, "stims": [], "impl": "data cells %s" % cells,
                                         "ref": "data cells %s" % want, "entryfirst": fact(y, "entryfirst"), "litjump": fact(y, "litjump")}))
            out += compare_sims(x, y, src)
            return out, "outside-subset-data"
        return out, "outside-subset"
    if (x["R"] == "R ok") != (y["R"] == "R ok"):
        out.append(("structural-result", {"source": src, "impl": x["R"], "model": y["R"]}))
        return out, "compared"
    if x["R"] != y["R"]:
        # both reject, for a differently classified reason: the classes come from message texts, which may be
        # reworded harmlessly; counted, not reported
        return out, "compared-class-differs"
    if x["mach"] != y["mach"]:
        d = next(((p, q) for p, q in zip(x["mach"], y["mach"]) if p != q), (str(len(x["mach"])), str(len(y["mach"]))))
        out.append(("structural-machine", {"source": src, "impl": d[0], "model": d[1]}))
        # keep going: the emitted machine is still simulated against the reference interpreter (failing-input search)
    if y["WF"] is not None and not y["WF"].startswith("WF 1"):
        out.append(("model-machine-not-wf", {"source": src, "model": y["WF"]}))
    out += compare_sims(x, y, src)
    return out, "compared"


def analyse(impl, model):
    mode_i, ci = cases(impl)
    _, cm = cases(model)
    st = {"cases": len(ci), "ok": 0, "err": {}, "compared": 0, "outside_subset": 0, "ticks": 0, "ticks_ref_undefined": 0, "ops": {},
          "kinds": {}, "ncp": {}, "entry_first": 0, "entry_not_first": 0, "rom_words": 0, "rsize": {}, "distinct": set()}
    finds = []
    if len(ci) != len(cm):
        finds.append(("oracle-desync", {"impl": len(ci), "model": len(cm)}))
        return mode_i, st, finds
    for x, y in zip(ci, cm):
        st["kinds"][x["kind"]] = st["kinds"].get(x["kind"], 0) + 1
        if x["R"] == "R ok":
            st["ok"] += 1
            st["distinct"].add("\n".join(x["src"]))
            ncp = len([l for l in x["mach"] if l.startswith("C ")])
            st["ncp"][ncp] = st["ncp"].get(ncp, 0) + 1
            st["rom_words"] += len([l for l in x["mach"] if l.startswith("W ")])
            for l in x["mach"]:
                if l.startswith("C "):
                    for f in l.split():
                        if f.startswith("ops="):
                            for o in f[4:].split(","):
                                st["ops"][o] = st["ops"].get(o, 0) + 1
                        if f.startswith("rsize="):
                            st["rsize"][f[6:]] = st["rsize"].get(f[6:], 0) + 1
            if fact(y, "entryfirst") == "1":
                st["entry_first"] += 1
            elif fact(y, "entryfirst") == "0":
                st["entry_not_first"] += 1
        elif x["R"]:
            c = x["R"].split()[2]
            st["err"][c] = st["err"].get(c, 0) + 1
        fs, how = compare_case(x, y)
        if how == "outside-subset-data":
            st["outside_subset"] += 1
            st["data_section_cases"] = st.get("data_section_cases", 0) + 1
        elif how == "outside-subset":
            st["outside_subset"] += 1
        else:
            st["compared"] += 1
            if how == "compared-class-differs":
                st["class_differs"] = st.get("class_differs", 0) + 1
        for k, xs in y["sims"].items():
            n = len([l for l in xs if l.startswith("X ") or l.startswith("BX ")])
            u = len([l for l in xs if l in ("X undefined", "X noentry", "BX undefined", "BX noentry")])
            if k == "machine":
                st["machine_ticks"] = st.get("machine_ticks", 0) + len([l for l in xs if l.startswith("BX ")])
            st["ticks"] += n - u
            st["ticks_ref_undefined"] += u
        finds += fs
    return mode_i, st, finds


def write_replay_input(path, src, stims=None):
    with open(path, "w") as f:
        f.write("CASE 0 replay mustfail=0\n")
        for l in src.rstrip("\n").split("\n"):
            f.write("S " + l + "\n")
        for cp, vs in (stims or {}).items():
            f.write("BSIM\n" if cp == "machine" else "SIM %s\n" % cp)
            for v in vs:
                f.write(v + "\n")


def replay_source(hbin, src, stims=None):
    d = vlib.scratch_dir("c05" + vlib._REPO_TAG)
    f = os.path.join(d, "replay.txt")
    write_replay_input(f, src, stims)
    impl, model = run_pair(hbin, ["replay", f])
    return analyse(impl, model)


def shrink(hbin, kind, detail):
    """drop instruction lines of the source while a finding of the same kind persists"""
    src = detail.get("source")
    if not src:
        return detail
    best = detail
    lines = src.rstrip("\n").split("\n")
    tries = 0
    changed = True
    while changed and tries < 60:
        changed = False
        for i in range(len(lines)):
            t = lines[i].split(";")[0].strip()
            if not t or t.startswith("%") or t.endswith(":") or t.startswith("entry"):
                continue
            cand = lines[:i] + lines[i + 1:]
            tries += 1
            try:
                _, _, fs = replay_source(hbin, "\n".join(cand) + "\n")
            except RuntimeError:
                continue
            same = [d for k, d in fs if k == kind and d.get("entryfirst") == detail.get("entryfirst")]
            if same:
                lines = cand
                best = same[0]
                changed = True
                break
            if tries >= 60:
                break
    return best


def run(rep):
    thorough = rep.tier == "thorough"
    hbin = vlib.go_build("c05")
    pr = vlib.prove(PROP, MODULES, exes=[EXE], leanchecker=thorough)
    rep.add_proof(pr, "lake build BMV.Props.C05 && lake env lean <#audit_module BMV.Props.C05>"
                  + (" && lake env leanchecker BMV.Props.C05" if thorough else ""),
                  ["BMV.BasmText.parseSource: text of the subset -> abstract syntax (glue; the oracle reads the very text the tool reads)",
                   "harness/basmdump: canonical text of the emitted bondmachine.Bondmachine",
                   "BMV.Isa as the simulator (tied to procbuilder.VM.Step by C01); BMV.Encode / layout table (tied by C03); "
                   "BMV.Topology (tied by C10)",
                   "decimal literals only: other notations are C08's matter"])
    rep.assumptions += [
        "basm runs with -disable-dynamical-matching: under the default configuration `mov reg, number` matches rset and the dynamic "
        "rsets5/6/7 opcodes and the tool answers 'unable to choose' (or, with -chooser-min-word-size, picks an opcode outside the layout table)",
        "the semantic theorem is per processor with its ports driven by an arbitrary environment (blocking and non-blocking IO); "
        "the network reference composes them (network_component / network_correct) but that bondmachine.VM.Step moves data as the "
        "network reference says is only compared per tick (whole-machine tie), not proved: C02/C04's matter",
        "numeric jump targets have no source-level meaning in the reference interpreter (it stops there: 'X undefined')",
        "sections shorter than 2^63 lines (Needed_bits arithmetic)",
    ]
    tot = None
    finds = []
    mode = None
    samples = []
    if os.path.exists(_oracle()):
        d = os.path.join(vlib.CORPUS, PROP)
        if os.path.isdir(d):
            for f in sorted(os.listdir(d)):
                if f.endswith(".txt"):
                    impl, model = run_pair(hbin, ["replay", os.path.join(d, f)])
                    _, st, fs = analyse(impl, model)
                    finds += fs
        n, steps = (3000, 60) if thorough else (400, 40)
        impl, model = run_pair(hbin, ["gen", str(n), str(steps)])
        mode, tot, fs = analyse(impl, model)
        finds += fs
        _, ci = cases(impl)
        samples = [{"kind": c["kind"], "source": "\n".join(c["src"]), "result": c["R"], "machine": c["mach"][:6]} for c in ci[:2]]
    if tot is None:
        tot = {"cases": 0, "ok": 0, "err": {}, "compared": 0, "outside_subset": 0, "ticks": 0, "ticks_ref_undefined": 0, "ops": {}, "kinds": {},
               "ncp": {}, "entry_first": 0, "entry_not_first": 0, "rom_words": 0, "rsize": {}, "distinct": set()}
    rep.coverage.update({
        "evaluations": tot["cases"],
        "distinct_nontrivial": len(tot["distinct"]),
        "rule": "one evaluation = one generated source assembled by the real basm package and by the model; non-trivial = the tool "
                "emitted a machine (then compared word for word, and every processor simulated); distinct = distinct source texts",
        "samples": samples or [{"note": "correspondence did not run"}],
        "traces_validated_against_impl": tot["compared"],
        "simulated_ticks_compared_with_reference_interpreter": tot["ticks"],
        "ticks_where_reference_has_no_meaning": tot["ticks_ref_undefined"],
        "whole_machine_ticks_compared": tot.get("machine_ticks", 0),
        "tree_under_test": mode or "?",
        "input_distribution": {"kinds": tot["kinds"], "tool_result_ok": tot["ok"], "tool_error_classes": tot["err"],
                               "processors_per_machine": tot["ncp"], "register_sizes": tot["rsize"],
                               "opcodes_in_emitted_machines": tot["ops"], "rom_words": tot["rom_words"],
                               "entry_label_on_first_instruction": tot["entry_first"], "entry_label_elsewhere": tot["entry_not_first"],
                               "outside_parser_subset": tot["outside_subset"],
                               "data_section_sources_interpreted": tot.get("data_section_cases", 0),
                               "both_reject_with_different_error_class": tot.get("class_differs", 0)},
        "unmodelled": ["templates, fragments, macros, data sections, call resolver, clustering, romsize/ramsize/execmode metas, shared objects",
                       "non-decimal literals (C08)", "multi-processor composition semantics (bonds): only the structure is compared"],
    })
    # ---- outcome ----
    kfs = vlib.load_known_findings(PROP)
    real = [(k, d) for k, d in finds if k in ("semantic", "unfit-accepted", "unfit-panic", "panic")]
    other = [(k, d) for k, d in finds if k not in ("semantic", "unfit-accepted", "unfit-panic", "panic")]
    rest = []
    reported = set()
    for k, d in real:
        hit = None
        for kf in kfs:
            sig = kf.get("signature", {})
            if sig.get("kind") == k and all(str(d.get(a)) == str(b) for a, b in sig.get("where", {}).items()):
                hit = kf
                break
        if hit:
            if hit["id"] not in reported:
                reported.add(hit["id"])
                rep.known("%s (%d cases in this run)" % (hit["what_fails"],
                          len([1 for k2, d2 in real if k2 == k and all(str(d2.get(a)) == str(b) for a, b in hit["signature"].get("where", {}).items())])))
        else:
            rest.append((k, d))
    if rest:
        k, d = rest[0]
        d = shrink(hbin, k, d) if k == "semantic" else d
        obj = {"property": PROP, "kind": "property-fails-on-impl", "what": k, "other_failing_cases": len(rest) - 1}
        obj.update(d)
        tag = None
        if k == "semantic" and d.get("entryfirst") == "0":
            tag = "entry-label-not-first"
        rep.violation(obj, tag=tag)
    elif other or not pr["ok"]:
        broken = list(pr["broken"])
        det = None
        if other:
            k, d = other[0]
            det = dict(d, what=k)
            broken.append("correspondence Basm.assemble vs pkg/basm (%s)" % k)
        rep.violation({"property": PROP, "kind": "proof-or-correspondence-broken", "broken": broken, "first_disagreement": det,
                       "source": (det or {}).get("source"),
                       "searched": "sim(basm(src)) vs refInterp(src) on %d ticks of %d emitted machines: no difference outside known findings"
                                   % (tot["ticks"], tot["ok"])}, no_failing_input=True)


def replay(rep, path):
    hbin = vlib.go_build("c05")
    vlib.lake_build([EXE])
    obj = json.load(open(path))
    src = obj.get("source") or (obj.get("first_disagreement") or {}).get("source")
    if not src:
        rep.coverage.update({"evaluations": 1, "distinct_nontrivial": 1, "rule": "replay of " + path + ": no source stored", "samples": []})
        return
    stims = None
    if obj.get("stims") and obj.get("cp") is not None:
        stims = {str(obj["cp"]): obj["stims"]}
    _, st, fs = replay_source(hbin, src, stims)
    rep.coverage.update({"evaluations": max(1, st["cases"]), "distinct_nontrivial": max(1, len(st["distinct"])), "rule": "replay of " + path,
                         "samples": [src]})
    for k, d in fs:
        o = {"property": PROP, "kind": "property-fails-on-impl" if k in ("semantic", "unfit-accepted", "unfit-panic", "panic") else k, "what": k}
        o.update(d)
        rep.violation(o, no_failing_input=k not in ("semantic", "unfit-accepted", "unfit-panic", "panic"))
