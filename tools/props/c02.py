"""C02 — a whole BondMachine behaves the same in generated HDL as in simulation.

proof:   lean/BMV/Props/C02.lean — netlist_exact (the emitted top level connects exactly the bonds,
         `_received` = conjunction over the consumers), recv_fold_eq_all (the running && of VM.Step
         = List.all, order independent), the per-bond / per-machine stream statements (see the
         file header for what is proved and what is kept as a visible `def … : Prop`).
ties:    (1) BMV.Bond.wire against bondmachine.v as the real Write_verilog_main emits it (parsed by
             bmvh/vlog): ports, declarations, instance connections, assigns — names included;
         (2) BMV.Bm.isaStep against the real bondmachine.VM, every Internal_* register/flag and
             every processor after every Step;
         (3) BMV.Bm.rtlCycle against the whole emitted file set under BMV.Vlog, every processor
             register every clock; the Lean environment automaton against the harness' one.
property on the implementation (search stage, run on every case): per external output the
         stream delivered by the real VM and by the emitted Verilog (under BMV.Vlog), same
         reactive environment, must be prefix-compatible; the netlist predicates of
         `netlist_exact` evaluated on the *emitted* netlist.
"""
import json
import os
from concurrent.futures import ThreadPoolExecutor

import vlib

LEVEL = "proof"
PROP = "C02"
MODULES = ["BMV.Props.C02"]
EXE = "oracle-c02"
PAR = max(2, min(8, (os.cpu_count() or 4) // 2))


def _oracle():
    return os.path.join(vlib.LEAN, ".lake", "build", "bin", EXE)


def split_cases(text):
    """a case = the lines from a G line up to (not including) its Z line"""
    cases, cur = [], None
    for l in text.splitlines():
        if l.startswith("G "):
            cur = [l]
        elif l == "Z":
            if cur is not None:
                cases.append(cur)
            cur = None
        elif cur is not None:
            cur.append(l)
    return cases


def run_pair(hbin, args, timeout=2400):
    rc, impl, err = vlib.run([hbin] + args, timeout=timeout, env=vlib.goenv())
    if rc != 0:
        raise RuntimeError("harness failed rc=%s: %s" % (rc, err[-2000:]))
    ci = split_cases(impl)
    n = max(1, min(PAR, len(ci)))
    chunks = [ci[k::n] for k in range(n)]

    def work(chunk):
        data = "".join("\n".join(c) + "\nZ\n" for c in chunk)
        rc2, model, err2 = vlib.run([_oracle()], input_bytes=data.encode(), timeout=timeout)
        if rc2 != 0:
            raise RuntimeError("oracle failed rc=%s: %s" % (rc2, err2[-2000:]))
        return split_cases(model)

    with ThreadPoolExecutor(max_workers=n) as ex:
        res = list(ex.map(work, chunks))
    cm = [None] * len(ci)
    for k, part in enumerate(res):
        if len(part) != len(chunks[k]):
            raise RuntimeError("oracle desync: %d cases in, %d out" % (len(chunks[k]), len(part)))
        for i, c in enumerate(part):
            cm[k + i * n] = c
    return ci, cm


def run_harness_only(hbin, args, timeout=2400):
    rc, impl, err = vlib.run([hbin] + args, timeout=timeout, env=vlib.goenv())
    if rc != 0:
        raise RuntimeError("harness failed rc=%s: %s" % (rc, err[-2000:]))
    return split_cases(impl)


def run_mode(tot, hbin, mode, args):
    """run one batch / replay in the given mode and compare"""
    if mode == "dly":
        ci = run_harness_only(hbin, args)
        compare_dly(tot, ci)
        return ci
    ci, cm = run_pair(hbin, args)
    compare(tot, ci, cm, "net" if mode == "netx" else mode)
    return ci


def tagged(lines, tag):
    for l in lines:
        if l == tag or l.startswith(tag + " "):
            return l[len(tag) + 1:]
    return None


def streams(s, nout):
    """'v,v;v;…' -> one list per external output (an empty string is `nout` empty streams)"""
    if s is None:
        return None
    s = s.replace(" hazard", "")
    if nout == 0:
        return []
    return [[x for x in p.split(",") if x] for p in s.split(";")]


def prefix_ok(a, b):
    """per output: one stream is a prefix of the other"""
    if len(a) != len(b):
        return False
    for x, y in zip(a, b):
        n = min(len(x), len(y))
        if x[:n] != y[:n]:
            return False
    return True


def replay_lines(ci):
    return [l for l in ci if l[:2] in ("G ", "D ", "A ", "S ", "E ", "O ") or l.startswith("DL ") or l.startswith("DM ")]


def graph_features(g):
    f = g.split()
    kv = {x.split("=")[0]: x.split("=", 1)[1] for x in f[4:] if "=" in x}
    iin = [x for x in kv.get("I", "").split(",") if x]
    iout = [x for x in kv.get("O", "").split(",") if x]
    links = [x for x in kv.get("L", "").split(",") if x]
    procs = [x for x in kv.get("P", "").split(",") if x]
    fan = {}
    mixed = set()
    for s, l in zip(iin, links):
        if l != "-":
            fan[l] = fan.get(l, 0) + 1
    kinds = {}
    for s, l in zip(iin, links):
        if l != "-":
            kinds.setdefault(l, set()).add(s[0])
    mixed = sum(1 for k in kinds.values() if len(k) > 1)
    return {"rsize": f[1], "procs": len(procs), "inputs": int(f[2]), "outputs": int(f[3]),
            "maxfan": max(fan.values()) if fan else 0, "mixed_consumers": mixed,
            "unlinked_sinks": sum(1 for l in links if l == "-"),
            "unconsumed_drivers": sum(1 for j in range(len(iout)) if str(j) not in fan),
            "bonds": len(fan) and sum(fan.values())}


class Tot:
    def __init__(self):
        self.n = {"net_cases": 0, "net_ok": 0, "sim_cases": 0, "sim_ticks": 0, "hdl_cases": 0, "hdl_clocks": 0, "hdl_ok": 0,
                  "stream_compared": 0, "stream_live": 0, "stream_values": 0, "excluded_by_PortReuseSafe": 0, "no_traffic": 0,
                  "env_checked": 0, "model_stream_checked": 0, "noise_cases": 0, "ref_checked": 0,
                  "commented_verilog_cases": 0, "onlydestregs_cases": 0, "domain_map_nonidentity_cases": 0, "shared_domain_cases": 0,
                  "unused_domain_cases": 0, "slow_release_output_cases": 0, "slow_release_input_cases": 0, "dly_cases": 0, "delayed_runs": 0, "delayed_live": 0, "delayed_live_fanout": 0}
        self.dist = {"procs": {}, "rsize": {}, "maxfan": {}, "inputs": {}, "outputs": {}, "mixed_consumers": 0, "unlinked_sinks": 0,
                     "unconsumed_drivers": 0, "bonds": 0}
        self.distinct = set()
        self.fails = []
        self.samples = []

    def opts(self, ci):
        o = tagged(ci, "O") or ""
        if "commented=1" in o:
            self.n["commented_verilog_cases"] += 1
        if "onlydestregs=1" in o:
            self.n["onlydestregs_cases"] += 1
        aps = [l.split() for l in ci if l.startswith("D ap ") and len(l.split()) >= 4]
        doms = [x[3] for x in aps]
        if any(x[2] != x[3] for x in aps):
            self.n["domain_map_nonidentity_cases"] += 1
        if len(set(doms)) < len(doms):
            self.n["shared_domain_cases"] += 1
        e = tagged(ci, "E") or ""
        for f in e.split():
            if f.startswith("orel=") and any(x not in "0,;" for x in f[5:]):
                self.n["slow_release_output_cases"] += 1
            if f.startswith("ihold=") and any(x not in "0,;" for x in f[6:]):
                self.n["slow_release_input_cases"] += 1
        dm = tagged(ci, "DM")
        if dm and dm.isdigit() and int(dm) > len(set(doms)):
            self.n["unused_domain_cases"] += 1

    def feat(self, g):
        ft = graph_features(g)
        for k in ("procs", "rsize", "maxfan", "inputs", "outputs"):
            d = self.dist[k]
            d[str(ft[k])] = d.get(str(ft[k]), 0) + 1
        for k in ("mixed_consumers", "unlinked_sinks", "unconsumed_drivers", "bonds"):
            self.dist[k] += ft[k]
        return ft


def compare(tot, ci_all, cm_all, mode):
    for ci, cm in zip(ci_all, cm_all):
        g = ci[0]
        base = {"mode": mode, "case": replay_lines(ci)}
        if cm is None or cm[0] != g:
            tot.fails.append(dict(base, kind="oracle-desync", detail=(cm or ["<none>"])[0][:200]))
            continue
        if g.startswith("G err"):
            tot.fails.append(dict(base, kind="harness-build", detail=g[:300]))
            continue
        ft = tot.feat(g)
        tot.opts(ci)
        if mode == "net":
            tot.n["net_cases"] += 1
            n = tagged(cm, "N")
            if n is not None and n.startswith("ok"):
                tot.n["net_ok"] += 1
                if ft["bonds"]:
                    tot.distinct.add(("net", g))
            else:
                pi = tagged(cm, "NE") or ""
                kind = "property-netlist" if pi.startswith("fail") else "netlist-correspondence"
                tot.fails.append(dict(base, kind=kind, detail=(n or "no N line")[:400], exact_on_emitted=pi[:300],
                                      emitted=[l for l in ci if l[:2] in ("NP", "NI", "NA", "NV")]))
            continue
        # sim / hdl
        tot.n["sim_cases"] += 1
        hi = tagged(cm, "HI")
        hz_tick = int(hi) if hi not in (None, "-") else None
        xi = [l for l in ci if l.startswith("X ")]
        xm = [l for l in cm if l.startswith("X ")]
        vi = [l for l in ci if l.startswith("V ")]
        lim = min(len(xi), len(xm)) if hz_tick is None else min(hz_tick, len(xi), len(xm))
        if hz_tick is None and len(xi) != len(xm):
            tot.fails.append(dict(base, kind="sim-correspondence", step=lim, impl="%d X lines" % len(xi), model="%d X lines" % len(xm), stim=vi[:lim + 1]))
        for t in range(lim):
            tot.n["sim_ticks"] += 1
            if xi[t] != xm[t]:
                tot.fails.append(dict(base, kind="sim-correspondence", step=t, impl=xi[t], model=xm[t], stim=vi[:t + 1]))
                break
        ev = tagged(cm, "EV")
        nout = int(g.split()[3])
        ss = streams(tagged(ci, "SS"), nout)
        if ev is None:
            tot.n["noise_cases"] += 1
            continue
        tot.n["env_checked"] += 1
        if ev != "ok" and not (hz_tick is not None and ev.startswith("differ@") and int(ev[7:]) >= hz_tick):
            tot.fails.append(dict(base, kind="env-correspondence", detail=ev))
        ms = streams(tagged(cm, "MS"), nout)
        if hz_tick is None and ss != ms:
            tot.fails.append(dict(base, kind="env-correspondence", detail="streams of the harness automaton and of the Lean automaton differ",
                                  impl=tagged(ci, "SS"), model=tagged(cm, "MS")))
        # named hypothesis IsaRefines, tested: the real VM's streams against the reference network's
        rf = streams(tagged(cm, "RF"), nout)
        if hz_tick is None and rf is not None:
            tot.n["ref_checked"] += 1
            if not prefix_ok(ss, rf):
                tot.fails.append(dict(base, kind="reference-stream", detail="the simulator's delivered streams are not those of the blocking-IO reference network (refutes IsaRefines)",
                                      impl=tagged(ci, "SS"), model=tagged(cm, "RF")))
        if mode != "hdl":
            continue
        tot.n["hdl_cases"] += 1
        h = tagged(cm, "H")
        if h != "ok":
            tot.fails.append(dict(base, kind="hdl-not-accepted", detail=("H " + (h or "missing"))[:400]))
            continue
        tot.n["hdl_ok"] += 1
        yz = tagged(cm, "YZ") or "missing"
        hr = tagged(cm, "HR")
        hz_clock = int(hr) if hr not in (None, "-") else None
        if yz.startswith("ok"):
            tot.n["hdl_clocks"] += int(yz.split()[1])
        else:
            at = int(yz.split("@")[1].split()[0]) if "@" in yz and yz.split("@")[1].split()[0].isdigit() else 0
            tot.n["hdl_clocks"] += at
            if hz_clock is None or at < hz_clock:
                tot.fails.append(dict(base, kind="hdl-correspondence", detail=yz[:1500]))
        sh = streams(tagged(cm, "SH"), nout)
        sr_raw = tagged(cm, "SR") or ""
        sr = streams(sr_raw, nout)
        if hz_tick is not None or hz_clock is not None or "hazard" in sr_raw:
            tot.n["excluded_by_PortReuseSafe"] += 1
            continue
        # the property itself, on the implementation: real VM streams vs emitted Verilog streams
        tot.n["stream_compared"] += 1
        nss = max([len(x) for x in ss] + [0])
        nsh = max([len(x) for x in sh] + [0])
        if nss == 0 and nsh == 0:
            tot.n["no_traffic"] += 1
        why = None
        if not prefix_ok(ss, sh):
            why = "delivered streams differ"
        else:
            for a, b in zip(ss, sh):
                # same environment, 1.5 clocks per tick: neither world may stall while the other runs
                if len(a) >= 6 and len(b) * 3 < len(a):
                    why = "the generated HDL stalls where the simulator keeps delivering"
                if len(b) >= 9 and len(a) * 5 < len(b):
                    why = "the simulator stalls where the generated HDL keeps delivering"
        if why:
            tot.fails.append(dict(base, kind="property-fails-on-impl", why=why, simulator_streams=tagged(ci, "SS"),
                                  hdl_streams=tagged(cm, "SH"), ticks=len(xi)))
        else:
            tot.n["stream_values"] += sum(min(len(a), len(b)) for a, b in zip(ss, sh))
            if any(min(len(a), len(b)) >= 3 for a, b in zip(ss, sh)):
                tot.n["stream_live"] += 1
                tot.distinct.add(("hdl", g, tuple(l for l in ci if l.startswith("S "))))
                if len(tot.samples) < 2:
                    tot.samples.append({"graph": g, "programs": [l for l in ci if l.startswith("S ")], "environment": tagged(ci, "E"),
                                        "simulator_streams": tagged(ci, "SS"), "hdl_streams": tagged(cm, "SH")})
        if rf is not None and not prefix_ok(sh, rf):
            tot.fails.append(dict(base, kind="reference-stream", detail="the generated HDL's delivered streams are not those of the blocking-IO reference network (refutes RtlRefines)",
                                  impl=tagged(cm, "SH"), model=tagged(cm, "RF")))
        # "regardless of how many clock cycles either takes": the simulator with opcode latencies
        check_delayed(tot, ci, base, ft, nout, ss, sh, tagged(cm, "SH"), len(xi))
        # the statement of stream_eq on the two models
        tot.n["model_stream_checked"] += 1
        if not prefix_ok(ms, sr):
            tot.fails.append(dict(base, kind="model-stream", detail="Bm.runRtl and Bm.runIsa deliver different streams (refutes stream_eq_full)",
                                  impl=tagged(cm, "SR"), model=tagged(cm, "MS")))


def delayed_runs(ci):
    """the (DL, SD) pairs of a case, in order"""
    runs, dl = [], None
    for l in ci:
        if l.startswith("DL "):
            dl = l[3:]
        elif l == "DL":
            dl = ""
        elif l.startswith("SD") and dl is not None:
            runs.append((dl, l[3:] if len(l) > 2 else ""))
            dl = None
    return runs


def check_delayed(tot, ci, base, ft, nout, ss, sh, sh_raw, ticks):
    """simulator with simulated opcode delays vs simulator without (and vs the HDL when given)"""
    for dl, sd_raw in delayed_runs(ci):
        tot.n["delayed_runs"] += 1
        sd = streams(sd_raw, nout) if sd_raw != "err" else None
        why = None
        if sd is None:
            why = "the simulator with opcode delays (%s) fails to step" % dl
        elif not prefix_ok(sd, ss):
            why = "the simulator delivers other streams with simulated opcode delays (%s) than without" % dl
        elif sh is not None and not prefix_ok(sd, sh):
            why = "the simulator with simulated opcode delays (%s) and the generated HDL deliver different streams" % dl
        else:
            for a, b in zip(ss, sd):
                if len(a) >= 12 and len(b) == 0:
                    why = "the simulator with opcode delays (%s) stalls where it keeps delivering without them" % dl
        if why:
            case = [l for l in base["case"] if not l.startswith("DL")] + ["DL " + dl]
            tot.fails.append(dict(base, case=case, kind="property-fails-on-impl", why=why, simulator_streams=tagged(ci, "SS"),
                                  delayed_simulator_streams=sd_raw, hdl_streams=sh_raw, ticks=ticks))
            return
        if any(min(len(a), len(b)) >= 3 for a, b in zip(ss, sd)):
            tot.n["delayed_live"] += 1
            if ft["maxfan"] >= 2:
                tot.n["delayed_live_fanout"] += 1
                tot.distinct.add(("dly", ci[0], dl))


def compare_dly(tot, ci_all):
    """mode dly: harness only (no oracle): streams with delays against streams without"""
    for ci in ci_all:
        g = ci[0]
        base = {"mode": "dly", "case": replay_lines(ci)}
        if g.startswith("G err"):
            tot.fails.append(dict(base, kind="harness-build", detail=g[:300]))
            continue
        ft = tot.feat(g)
        tot.opts(ci)
        nout = int(g.split()[3])
        ss = streams(tagged(ci, "SS"), nout)
        if ss is None:
            tot.fails.append(dict(base, kind="harness-build", detail="no SS line"))
            continue
        tot.n["dly_cases"] += 1
        e = tagged(ci, "E") or ""
        k = [x for x in e.split() if x.startswith("clocks=")]
        ticks = int(k[0][7:]) * 2 // 3 if k else 0
        check_delayed(tot, ci, base, ft, nout, ss, None, None, ticks)


def write_replay_file(case_lines, ticks=None):
    d = vlib.scratch_dir("c02-%d" % os.getpid())
    f = os.path.join(d, "replay.txt")
    with open(f, "w") as fh:
        for l in case_lines:
            fh.write(l + "\n")
        if ticks:
            fh.write("K %d\n" % ticks)
    return f


def shrink_horizon(hbin, fail):
    """smallest number of ticks at which the stream difference is visible"""
    lo, hi = 1, int(fail.get("ticks") or 0)
    if hi <= 1:
        return fail
    best = None
    while lo < hi:
        mid = (lo + hi) // 2
        t = Tot()
        case = [l if not l.startswith("E ") else " ".join(x if not x.startswith("clocks=") else "clocks=%d" % (mid * 3 // 2) for x in l.split()) for l in fail["case"]]
        run_mode(t, hbin, fail.get("mode", "hdl"), ["replay" + fail.get("mode", "hdl"), write_replay_file(case, mid)])
        bad = [f for f in t.fails if f["kind"] == "property-fails-on-impl"]
        if bad:
            best = dict(bad[0], ticks=mid, case=case)
            hi = mid
        else:
            lo = mid + 1
    return best or fail


def corpus_files():
    d = os.path.join(vlib.CORPUS, PROP)
    if not os.path.isdir(d):
        return []
    return sorted(os.path.join(d, f) for f in os.listdir(d) if f.endswith(".txt"))


def run(rep):
    thorough = rep.tier == "thorough"
    hbin = vlib.go_build("c02")
    pr = vlib.prove(PROP, MODULES, exes=[EXE], leanchecker=thorough)
    rep.add_proof(pr, "lake build BMV.Props.C02 && lake env lean <#audit_module BMV.Props.C02>"
                  + (" && lake env leanchecker BMV.Props.C02" if thorough else ""),
                  ["BMV.Bond.wire: hand-written model of Write_verilog_main (tied by exact comparison with the parsed bondmachine.v)",
                   "BMV.Bm.isaStep: hand-written model of bondmachine.VM.Step (tied tick by tick); BMV.Isa (C01) for the processors",
                   "BMV.Bm.rtlCycle: processors' BMV.Rtl.cycle (C01) composed through the bonds (tied clock by clock to the emitted file set under BMV.Vlog)",
                   "BMV.Vlog + harness/vlog: the Verilog-subset reader and semantics (docs/Vlog.md) — definition of what emitted text means; "
                   "implicit scalar nets of instance port connections (IEEE 1364-2001 3.5) are declared by the harness before elaboration",
                   "the reactive environment automaton exists twice (Go: cmd/c02 envState.step, Lean: BMV.Bm.envStep); equality of what they drive is checked on every case",
                   "two-state hardware values: registers start at 0 after reset, an undriven wire reads 0"])
    rep.assumptions += [
        "PortReuseSafe (the C04 signature: a handshake instruction starting on a port whose previous 4-phase cycle is not over) is a named hypothesis of "
        "stream_eq_full; with the repaired handshake (/repo fix 18c0f8e, models following it) theorem port_reuse_safe_always proves it for every machine, "
        "so the generator also emits back-to-back uses of one port (VERIF_C02_TIGHT=0 turns that off). The monitors BMV.Bm.isaHazard / rtlHazard stay "
        "in the oracle: a run that meets the signature is counted under excluded_by_PortReuseSafe and not stream-compared (0 expected)",
        "protocol-abiding environment: holds valid until received (and up to 8 ticks longer) and waits for received to drop; acknowledges after valid, "
        "holds the acknowledge until valid drops and — only where the external output is the sole consumer of its driver — up to 8 ticks longer "
        "(received of an output is the AND of its consumers: a slow-releasing consumer next to a sibling is outside the protocol, docs/C02.md)",
        "ha mode, L = 0, opcodes nop rset inc dec clr add mult cpy j i2rw r2owa; shared objects, external modules (etherbond, bmapi, board top levels), "
        "simbox delay distributions are outside the model",
        "timing independence of the simulator itself: a second (and for machines with fan-out to several processors a third and fourth) real VM runs the "
        "same machine and environment with VM.SimDelayMap = single-valued per-opcode latencies (1..23 idle ticks after inc/add/cpy/nop/j/i2rw/r2owa/...), "
        "4 x the ticks; its delivered streams must be prefix-compatible with the undelayed simulator's and with the HDL's (modes hdl and dly)",
        "generator options: a third of the machines are emitted with Config.CommentedVerilog, a quarter of the hdl machines with the hardware "
        "optimisation OnlyDestRegs (register sets recorded through HLAssemblerNormalize); OnlySrcRegs only concerns opcodes outside C02's set; "
        "flavor is iverilog (only shared objects / board files depend on it)",
        "streams are compared prefix-wise up to the horizon (ticks / 1.5 x clocks); a world that stops delivering while the other continues is reported",
    ]
    tot = Tot()
    if os.path.exists(_oracle()):
        for f in corpus_files():
            b = os.path.basename(f)
            mode = "net" if b.startswith("net") else "dly" if b.startswith("dly") else "hdl"
            run_mode(tot, hbin, mode, ["replay" + mode, f])
        plan = [("net", 400, 0), ("sim", 40, 150), ("hdl", 60, 300), ("dly", 400, 300)] if not thorough else \
               [("netx", 0, 0), ("net", 6000, 0), ("sim", 400, 300), ("hdl", 1500, 400), ("dly", 6000, 400)]
        for mode, n, ticks in plan:
            run_mode(tot, hbin, mode, [mode, str(n), str(ticks)])
    n = tot.n
    rep.coverage.update({
        "evaluations": n["net_cases"] + n["sim_ticks"] + n["hdl_clocks"],
        "distinct_nontrivial": len(tot.distinct),
        "rule": "seeded random bond graphs built with the real API in random call order (1..4 processors — instances of domains listed in any "
                "order, a domain possibly instantiated several times or not at all — with 0..3 inputs/outputs each, 0..3 external "
                "inputs/outputs, fan-out up to 3, external and internal consumers of one output, unconnected ports, occasional cycles) x blocking-IO "
                "pipeline programs (rset prologue; loop: i2rw of connected inputs, inc/dec/clr/add/cpy/mult/nop, r2owa of connected outputs, j) x "
                "value streams and stall patterns per external port; evaluations = netlists compared + simulator ticks compared + hardware clocks compared; "
                "distinct non-trivial = distinct graphs with at least one bond whose netlist was compared + distinct (graph, programs) whose "
                "delivered streams were compared on at least 3 values of some external output in both worlds + distinct (graph with fan-out >= 2, "
                "opcode-latency assignment) whose delayed and undelayed simulator streams were compared on at least 3 values",
        "samples": tot.samples or [{"note": "no live stream case in this run"}],
        "traces_validated_against_impl": n["sim_cases"] + n["hdl_ok"],
        "input_distribution": dict(n, **tot.dist),
        "unmodelled": ["shared objects and their ports", "external modules (etherbond, udpbond, bmapi, board top levels)", "modes vn/hy, RAM, threads",
                       "simbox delay distributions in the models (BMV.Isa has DelayCounter = 0: the simulator with simulated opcode "
                       "latencies is compared on delivered streams only, not tick by tick)", "testbench generation"],
    })
    if n["excluded_by_PortReuseSafe"]:
        rep.notes.append("%d of %d HDL cases met the C04 signature (PortReuseSafe fails) and were not stream-compared" % (n["excluded_by_PortReuseSafe"], n["hdl_ok"]))
    real = [f for f in tot.fails if f["kind"] in ("property-fails-on-impl", "property-netlist")]
    other = [f for f in tot.fails if f not in real]
    if real:
        real.sort(key=lambda f: 0 if f["kind"] == "property-netlist" else 1)
        f = real[0]
        if f["kind"] == "property-fails-on-impl":
            try:
                f = shrink_horizon(hbin, f)
            except Exception as e:  # keep the unshrunk case
                rep.notes.append("shrinking failed: %s" % e)
        rep.violation(dict({k: v for k, v in f.items()}, property=PROP, other_failing_cases=len(real) - 1))
    elif other or not pr["ok"]:
        broken = list(pr["broken"])
        detail = None
        if other:
            f = other[0]
            detail = f
            names = {"sim-correspondence": "BMV.Bm.isaStep vs bondmachine.VM.Step", "hdl-correspondence": "BMV.Bm.rtlCycle vs emitted Verilog under BMV.Vlog",
                     "hdl-not-accepted": "emitted file set not accepted by the Verilog reader/elaborator", "netlist-correspondence": "BMV.Bond.wire vs emitted bondmachine.v",
                     "env-correspondence": "Lean environment automaton vs harness automaton", "model-stream": "stream_eq_full refuted on the models",
                     "reference-stream": "IsaRefines / RtlRefines refuted: a world delivers what the reference network cannot"}
            broken.append("correspondence: " + names.get(f["kind"], f["kind"]))
        rep.violation({"property": PROP, "kind": "proof-or-correspondence-broken", "broken": broken, "first_disagreement": detail,
                       "searched": "real VM vs emitted Verilog under BMV.Vlog: delivered streams of %d machines (%d with live traffic, %d values) agree; "
                                   "netlist predicates hold on %d emitted netlists" % (n["stream_compared"], n["stream_live"], n["stream_values"], n["net_ok"]),
                       "other_disagreements": len(other) - 1 if other else 0}, no_failing_input=True)


def replay(rep, path):
    hbin = vlib.go_build("c02")
    vlib.lake_build([EXE])
    obj = json.load(open(path))
    f = obj if obj.get("case") else (obj.get("first_disagreement") or {})
    mode = f.get("mode", "hdl")
    tot = Tot()
    ci = run_mode(tot, hbin, mode, ["replay" + mode, write_replay_file(f.get("case", []), f.get("ticks"))])
    if not ci:
        tot.fails.append({"kind": "replay-did-not-run", "mode": mode, "case": f.get("case", [])})
    rep.coverage.update({"evaluations": max(1, tot.n["net_cases"] + tot.n["sim_ticks"] + tot.n["hdl_clocks"]),
                         "distinct_nontrivial": max(1, len(tot.distinct)), "rule": "replay of " + path,
                         "samples": [f.get("case", [])[:1]]})
    for x in tot.fails:
        rep.violation(dict(x, property=PROP), no_failing_input=x["kind"] not in ("property-fails-on-impl", "property-netlist"))
