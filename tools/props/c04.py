"""C04 — a bond delivers every value exactly once, in order, to every consumer.

proof:  lean/BMV/Props/C04.lean — inductive invariants of the two handshake transition systems of
        BMV.Hs (simulator protocol, hardware protocol) for every fan-out k and every adversarial
        schedule: exactly_once_{isa,rtl}, producer_waits_*, consumer_waits_*, streams_are_prefixes;
        plus old_protocol_duplicates / old_protocol_loses (what the pinned code did before fix 18c0f8e).
ties:   (a) Hs.Isa vs the real bondmachine.VM: one producer (r2owa) + k consumers (i2rw) with random
            instruction mixes/padding incl. back-to-back IO on the same port; valid, every recv and
            deferred flag, every completion and capture compared after every VM.Step;
        (b) Hs.Rtl vs the Verilog EMITTED for each of those processors (real generators, parsed,
            executed by BMV.Vlog, wired as a bond) clock by clock; and vs the net of BMV.Rtl.cycle;
search: the property itself on the implementation: every consumer's captured stream must be the
        written stream (at most the value in flight ahead), in the Go VM and in the emitted hardware.
"""
import json
import os
import vlib

LEVEL = "proof"
PROP = "C04"
MODULES = ["BMV.Props.C04"]
EXE = "oracle-c04"


def _oracle():
    return os.path.join(vlib.LEAN, ".lake", "build", "bin", EXE)


def cases(text):
    cs, cur = [], None
    for l in text.splitlines():
        if l.startswith("N "):
            cur = {"k": int(l.split()[1]), "lines": [], "src": {}, "delays": ""}
            cs.append(cur)
        elif cur is not None:
            cur["lines"].append(l)
            if l.startswith("D"):
                cur["delays"] = l[2:].strip()
            f = l.split(" ", 3)
            if len(f) == 4 and f[0] == "M" and f[2] == "S":
                cur["src"].setdefault(int(f[1]), []).append(f[3])
    return cs


def kvs(line):
    d = {}
    for f in line.split()[1:]:
        if "=" in f:
            k, v = f.split("=", 1)
            d[k] = v
    return d


def ints(s):
    return [int(x) for x in s.split(",")] if s else []


def stream_ok(written, got):
    """got must be written, or written plus exactly one more value (the one in flight)"""
    n = min(len(written), len(got))
    return got[:n] == written[:n] and len(written) - 1 <= len(got) <= len(written) + 1


def compare(impl, model):
    ci, cm = cases(impl), cases(model)
    st = {"with_delays": 0, "cases": len(ci), "ticks": 0, "transfers": 0, "captures": 0, "back_to_back_prod": 0, "back_to_back_cons": 0,
          "fanout": {}, "vt_ok": 0, "rt_ok": 0, "distinct": set()}
    fails = []
    if len(ci) != len(cm):
        return st, [{"kind": "oracle-desync", "detail": "%d vs %d cases" % (len(ci), len(cm))}]
    for a, b in zip(ci, cm):
        k = a["k"]
        st["fanout"][str(k)] = st["fanout"].get(str(k), 0) + 1
        srcs = [a["src"].get(i, []) for i in range(k + 1)]
        base = {"k": k, "src": srcs, "delays": a.get("delays", "")}
        if a.get("delays"):
            st["with_delays"] = st.get("with_delays", 0) + 1
        for i, s in enumerate(srcs):
            for x, y in zip(s, s[1:]):
                if x.split()[0] == y.split()[0] and x.split()[0] in ("r2owa", "i2rw"):
                    st["back_to_back_prod" if i == 0 else "back_to_back_cons"] += 1
        io = {}
        for l in a["lines"]:
            f = l.split()
            if len(f) >= 3 and f[0] == "M" and f[2] == "IO":
                io[int(f[1])] = ints(f[3]) if len(f) > 3 else []
        G = [l for l in a["lines"] if l.startswith("G ")]
        g = [l for l in b["lines"] if l.startswith("g ")]
        ok = True
        for t, (x, y) in enumerate(zip(G, g)):
            if x == "G err":
                fails.append(dict(base, kind="impl-error", tick=t, impl=x, model=y))
                ok = False
                break
            dx, dy = kvs(x), kvs(y)
            pre, post = ints(dx["pre"]), ints(dx["post"])
            dl = ints(dx.get("dl", "")) or [0] * (k + 1)
            ps = "1" if (pre[0] in io.get(0, []) and dl[0] == 0 and post[0] != pre[0]) else "0"
            cs = ",".join("1" if (pre[i] in io.get(i, []) and dl[i] == 0 and post[i] != pre[i]) else "0" for i in range(1, k + 1))
            st["ticks"] += 1
            st["transfers"] += ps == "1"
            st["captures"] += cs.count("1")
            st["distinct"].add((tuple(map(tuple, srcs)), t))
            if (dx["v"], dx["r"], dx["df"], ps, cs) != (dy["v"], dy["r"], dy["df"], dy["ps"], dy["cs"]):
                fails.append(dict(base, kind="sim-correspondence", tick=t, impl=x + " ps=%s cs=%s" % (ps, cs), model=y))
                ok = False
                break
        W = next((ints(l[2:].strip()) for l in a["lines"] if l.startswith("W")), [])
        for l in a["lines"]:
            if l.startswith("R "):
                f = l.split()
                got = ints(f[2]) if len(f) > 2 else []
                if not stream_ok(W, got):
                    fails.append(dict(base, kind="property-fails-on-impl", world="Go simulator", written=W, consumer=int(f[1]), got=got,
                                      why="consumer %s captured %s but the producer wrote %s" % (f[1], got, W)))
        # hardware
        rt = next((l for l in b["lines"] if l.startswith("RT ")), "RT missing")
        vt = next((l for l in b["lines"] if l.startswith("VT ")), "VT missing")
        if rt.startswith("RT ok"):
            st["rt_ok"] += 1
        else:
            fails.append(dict(base, kind="rtl-model-correspondence", detail=rt))
        if vt.startswith("VT ok"):
            st["vt_ok"] += 1
        else:
            fails.append(dict(base, kind="hdl-correspondence", detail=vt))
        VW = next((ints(l[3:].strip()) for l in b["lines"] if l.startswith("VW")), None)
        if VW is not None:
            for l in b["lines"]:
                if l.startswith("VR "):
                    f = l.split()
                    got = ints(f[2]) if len(f) > 2 else []
                    if not stream_ok(VW, got):
                        fails.append(dict(base, kind="property-fails-on-impl", world="emitted Verilog under BMV.Vlog", written=VW,
                                          consumer=int(f[1]), got=got,
                                          why="hardware consumer %s captured %s but the producer wrote %s" % (f[1], got, VW)))
            # a net that stops moving while everybody keeps requesting is a deadlock
            if len(G) >= 120 and len(VW) == 0 and len(W) > 0:
                fails.append(dict(base, kind="property-fails-on-impl", world="emitted Verilog under BMV.Vlog", written=VW, consumer=0, got=[],
                                  why="the hardware net transferred nothing in %d clocks while the simulator transferred %d values" % (len(G), len(W))))
    return st, fails


def run_pair(hbin, args, timeout=2400):
    rc, impl, err = vlib.run([hbin] + args, timeout=timeout, env=vlib.goenv())
    if rc != 0:
        raise RuntimeError("harness failed rc=%s: %s" % (rc, err[-2000:]))
    rc2, model, err2 = vlib.run([_oracle()], input_bytes=impl.encode(), timeout=timeout)
    if rc2 != 0:
        raise RuntimeError("oracle failed rc=%s: %s" % (rc2, err2[-2000:]))
    return impl, model


def replay_case(hbin, case, ticks=200):
    d = vlib.scratch_dir("c04")
    f = os.path.join(d, "replay.txt")
    with open(f, "w") as fh:
        fh.write("N %d\nTICKS %d\nD %s\n" % (case["k"], ticks, case.get("delays", "")))
        for i, s in enumerate(case["src"]):
            for l in s:
                fh.write("M %d S %s\n" % (i, l))
    impl, model = run_pair(hbin, ["replay", f])
    return compare(impl, model)


def corpus_files():
    d = os.path.join(vlib.CORPUS, PROP)
    if not os.path.isdir(d):
        return []
    return sorted(os.path.join(d, f) for f in os.listdir(d) if f.endswith(".txt"))


def run(rep):
    thorough = rep.tier == "thorough"
    hbin = vlib.go_build("c04")
    pr = vlib.prove(PROP, MODULES, exes=[EXE], leanchecker=thorough)
    rep.add_proof(pr, "lake build BMV.Props.C04 && lake env lean <#audit_module BMV.Props.C04>"
                  + (" && lake env leanchecker BMV.Props.C04" if thorough else ""),
                  ["BMV.Hs: hand-written transition systems of the handshake in the simulator and in the generated hardware (tied by correspondence)",
                   "BMV.Vlog + harness/vlog: the meaning of the emitted Verilog (docs/Vlog.md); the bond wiring between processors is done by the "
                   "oracle as Write_verilog_main does it (that wiring is C02's subject)"])
    rep.assumptions += [
        "one producer output bonded to k >= 1 consumer inputs; agents are busy (any non-IO code, any duration) or at an IO instruction of this bond",
        "relative speeds are varied through instruction padding and through simbox per-opcode delays (one certain value per opcode; "
        "random distributions are not used so that runs replay)",
        "sicv3 (also anchored) is not modelled; liveness (no deadlock under every fair schedule) is proved for both protocol "
        "models (no_deadlock_isa / no_deadlock_rtl) and additionally observed on the implementation (a net that stops transferring is reported)",
    ]
    tot = {"with_delays": 0, "cases": 0, "ticks": 0, "transfers": 0, "captures": 0, "back_to_back_prod": 0, "back_to_back_cons": 0, "vt_ok": 0, "rt_ok": 0}
    fan, distinct, fails, samples = {}, set(), [], []

    def absorb(st):
        for k in tot:
            tot[k] += st[k]
        for k, v in st["fanout"].items():
            fan[k] = fan.get(k, 0) + v
        distinct.update(st["distinct"])

    if os.path.exists(_oracle()):
        for f in corpus_files():
            impl, model = run_pair(hbin, ["replay", f])
            st, fs = compare(impl, model)
            absorb(st)
            fails += fs
        n, ticks = (2500, 300) if thorough else (160, 160)
        impl, model = run_pair(hbin, ["gen", str(n), str(ticks)])
        st, fs = compare(impl, model)
        absorb(st)
        fails += fs
        c0 = cases(impl)[0]
        samples.append({"k": c0["k"], "programs": [c0["src"].get(i, []) for i in range(c0["k"] + 1)],
                        "first_ticks": [l for l in c0["lines"] if l.startswith("G ")][:8],
                        "written": next((l for l in c0["lines"] if l.startswith("W")), "")})
    rep.coverage.update({
        "evaluations": tot["ticks"],
        "distinct_nontrivial": len(distinct),
        "rule": "seeded random nets: 1 producer + k in 1..3 consumers, 1..3 IO instructions per loop, 0..4 nops of padding around each, "
                "one third of the IO instructions doubled back-to-back on the same port; non-trivial/distinct = distinct (programs, tick) "
                "at which the real VM and the protocol model were compared",
        "samples": samples or [{"note": "correspondence did not run"}],
        "traces_validated_against_impl": tot["cases"],
        "input_distribution": dict(tot, fanout=fan),
    })
    real = [f for f in fails if f["kind"] == "property-fails-on-impl"]
    other = [f for f in fails if f["kind"] != "property-fails-on-impl"]
    if real:
        f = real[0]
        rep.violation({"property": PROP, "kind": f["kind"], "k": f["k"], "src": f["src"], "delays": f.get("delays", ""), "world": f["world"], "written": f["written"],
                       "consumer": f["consumer"], "got": f["got"], "why": f["why"], "other_failing_cases": len(real) - 1})
    elif other or not pr["ok"]:
        broken = list(pr["broken"])
        detail = None
        if other:
            f = other[0]
            detail = {k: f.get(k) for k in ("kind", "k", "src", "delays", "tick", "impl", "model", "detail")}
            names = {"sim-correspondence": "BMV.Hs.Isa vs bondmachine.VM", "hdl-correspondence": "BMV.Hs.Rtl vs emitted Verilog under BMV.Vlog",
                     "rtl-model-correspondence": "BMV.Hs.Rtl vs net of BMV.Rtl.cycle"}
            broken.append("correspondence: " + names.get(f["kind"], f["kind"]))
        rep.violation({"property": PROP, "kind": "proof-or-correspondence-broken", "broken": broken, "first_disagreement": detail,
                       "searched": "delivered streams of %d nets (%d transfers in the Go VM; the same nets in emitted hardware): every consumer "
                                   "received exactly the written sequence" % (tot["cases"], tot["transfers"])}, no_failing_input=True)


def replay(rep, path):
    hbin = vlib.go_build("c04")
    vlib.lake_build([EXE])
    obj = json.load(open(path))
    case = obj if obj.get("src") else (obj.get("first_disagreement") or {})
    st, fs = replay_case(hbin, case)
    rep.coverage.update({"evaluations": max(1, st["ticks"]), "distinct_nontrivial": max(2, len(st["distinct"])),
                         "rule": "replay of " + path, "samples": [case.get("src")]})
    for f in fs:
        rep.violation({"property": PROP, "kind": f["kind"], "k": f["k"], "src": f["src"], "detail": {k: v for k, v in f.items() if k not in ("src",)}},
                      no_failing_input=f["kind"] != "property-fails-on-impl")
