"""C04 — a bond delivers every value exactly once, in order, to every consumer.

proof:  lean/BMV/Props/C04.lean — inductive invariants of the two handshake transition systems of
        BMV.Hs (simulator protocol, hardware protocol) for every fan-out k and every adversarial
        schedule: exactly_once_{isa,rtl}, producer_waits_*, consumer_waits_*, streams_are_prefixes;
        plus old_protocol_duplicates / old_protocol_loses (what the pinned code did before fix 18c0f8e).
ties:   (a) Hs.Isa vs the real bondmachine.VM: one producer (r2owa) + k consumers (i2rw) with random
            instruction mixes/padding incl. back-to-back IO on the same port; valid, every recv and
            deferred flag, every completion and capture compared after every VM.Step;
        (b) Hs.Rtl vs the Verilog EMITTED for each of those processors (real generators, parsed,
            executed by BMV.Vlog, wired as a bond) clock by clock; and vs the net of BMV.Rtl.cycle;
search: the property itself on the implementation: every consumer's captured stream must be the
        written stream (at most the value in flight ahead), in the Go VM and in the emitted hardware.
"""
import json
import os
import vlib

LEVEL = "proof"
PROP = "C04"
MODULES = ["BMV.Props.C04"]
EXE = "oracle-c04"


def _oracle():
    return os.path.join(vlib.LEAN, ".lake", "build", "bin", EXE)


def cases(text):
    cs, cur = [], None
    for l in text.splitlines():
        if l.startswith("N "):
            f = l.split()
            cur = {"P": int(f[1]), "B": int(f[2]) if len(f) > 2 else 1, "lines": [], "src": {}, "arch": {}, "delays": "", "bonds": [], "io": {}}
            cs.append(cur)
        elif cur is not None:
            cur["lines"].append(l)
            if l.startswith("D"):
                cur["delays"] = l[2:].strip()
            elif l.startswith("B "):
                cur["bonds"].append(l)
            elif l.startswith("SIC "):
                f = l.split()
                cur.setdefault("sic", set()).add(int(f[1]))
                cur.setdefault("sicpos", {})[int(f[1])] = set(ints(f[2])) if len(f) > 2 else None
            elif l.startswith("IO "):
                f = l.split()
                cur["io"][(int(f[1]), f[2])] = ints(f[3]) if len(f) > 3 else []
            f = l.split(" ", 3)
            if len(f) == 4 and f[0] == "M" and f[2] == "S":
                cur["src"].setdefault(int(f[1]), []).append(f[3])
            if len(f) == 4 and f[0] == "M" and f[2] == "A":
                cur["arch"][int(f[1])] = "A " + f[3]
    return cs


def kvs(line):
    d = {}
    for f in line.split()[1:]:
        if "=" in f:
            k, v = f.split("=", 1)
            d[k] = v
    return d


def ints(s):
    return [int(x) for x in s.split(",")] if s else []


def stream_ok(written, got):
    """got must be written, or written plus exactly one more value (the one in flight)"""
    n = min(len(written), len(got))
    return got[:n] == written[:n] and len(written) - 1 <= len(got) <= len(written) + 1


def bond_desc(line):
    """'B b pp op c:ip,c:ip' -> (b, pp, op, [(c, ip)]); the environment's ends have processor -1"""
    f = line.split()
    pi = lambda x: -1 if x == "e" else int(x)
    return int(f[1]), pi(f[2]), int(f[3]), [(pi(c.split(":")[0]), int(c.split(":")[1])) for c in f[4].split(",")]


def streams(lines, wtag, rtag):
    """-> {b: written}, {(b, j): got}"""
    W, R = {}, {}
    for l in lines:
        f = l.split()
        if f and f[0] == wtag and len(f) >= 2:
            W[int(f[1])] = ints(f[2]) if len(f) > 2 else []
        elif f and f[0] == rtag and len(f) >= 3:
            R[(int(f[1]), int(f[2]))] = ints(f[3]) if len(f) > 3 else []
    return W, R


def compare(impl, model):
    ci, cm = cases(impl), cases(model)
    st = {"with_delays": 0, "cases": len(ci), "ticks": 0, "transfers": 0, "captures": 0, "back_to_back_prod": 0, "back_to_back_cons": 0,
          "fanout": {}, "bonds_per_net": {}, "procs_per_net": {}, "relays": 0, "two_inputs_same_bond": 0, "port_not_0": 0, "env_nets": 0, "sicv3_nets": 0,
          "vt_ok": 0, "rt_ok": 0, "hw_skipped_env": 0, "hw_values_compared": 0, "halting_nets": 0, "distinct": set()}
    fails = []
    if len(ci) != len(cm):
        return st, [{"kind": "oracle-desync", "detail": "%d vs %d cases" % (len(ci), len(cm))}]
    for a, b in zip(ci, cm):
        P = a["P"]
        bonds = [bond_desc(l) for l in a["bonds"]]
        sic = a.get("sic", set())
        st["sicv3_nets"] += bool(sic)
        srcs = [a["src"].get(i, []) for i in range(P)]
        base = {"sic": sorted(a.get("sic", set())), "env": next((l for l in a["lines"] if l.startswith("ENV ")), "ENV 0"), "P": P, "src": srcs, "arch": [a["arch"].get(i, "") for i in range(P)], "bonds": a["bonds"], "delays": a.get("delays", "")}
        st["bonds_per_net"][str(len(bonds))] = st["bonds_per_net"].get(str(len(bonds)), 0) + 1
        st["procs_per_net"][str(P)] = st["procs_per_net"].get(str(P), 0) + 1
        for (bi, pp, op, cons) in bonds:
            st["fanout"][str(len(cons))] = st["fanout"].get(str(len(cons)), 0) + 1
            st["port_not_0"] += (op != 0) + sum(1 for (_, ip) in cons if ip != 0)
            st["two_inputs_same_bond"] += len(cons) != len(set(c for c, _ in cons))
        st["env_nets"] += any(pp < 0 or any(c < 0 for c, _ in cons) for (_, pp, _, cons) in bonds)
        prods = set(pp for (_, pp, _, _) in bonds if pp >= 0)
        st["relays"] += len(prods & set(c for (_, _, _, cons) in bonds for (c, _) in cons))
        if a.get("delays"):
            st["with_delays"] += 1
        for i, s in enumerate(srcs):
            for x, y in zip(s, s[1:]):
                if x.split()[0] == y.split()[0] and x.split()[0] in ("r2owa", "i2rw"):
                    st["back_to_back_prod" if x.split()[0] == "r2owa" else "back_to_back_cons"] += 1
        G = [l for l in a["lines"] if l.startswith("G ")]
        g = [l for l in b["lines"] if l.startswith("g ")]
        for t, (x, y) in enumerate(zip(G, g)):
            if x == "G err":
                fails.append(dict(base, kind="impl-error", tick=t, impl=x, model=y))
                break
            dx, dy = kvs(x), kvs(y)
            pre, post = ints(dx["pre"]), ints(dx["post"])
            dl = ints(dx.get("dl", "")) or [0] * P
            st["ticks"] += 1
            st["distinct"].add((tuple(map(tuple, srcs)), tuple(a["bonds"]), t))
            bad = False
            for (bi, pp, op, cons) in bonds:
                if bi in sic:
                    continue      # read with sicv3: acknowledged, nothing transferred
                k = str(bi)
                ps, cs = dx["ps" + k], dx["cs" + k]
                st["transfers"] += ps == "1"
                st["captures"] += cs.count("1")
                # (the name under which the simulator keeps its deferred closure is not compared: df is informative only)
                if (dx["v" + k], dx["r" + k], ps, cs) != (dy["v" + k], dy["r" + k], dy["ps" + k], dy["cs" + k]):
                    fails.append(dict(base, kind="sim-correspondence", tick=t, bond=bi, impl=x, model=y))
                    bad = True
                    break
            if bad:
                break
        W, R = streams(a["lines"], "W", "R")
        sicpos = a.get("sicpos", {})

        def sic_end(bi, j):
            return bi in sic and (sicpos.get(bi) is None or j in sicpos[bi])

        for (bi, j), got in sorted(R.items()):
            if sic_end(bi, j):
                # sicv3 acknowledges a value without taking it: it may acknowledge one value twice, but
                # the producer must not get past a value the instruction has not acknowledged
                if len(W.get(bi, [])) - len(got) > 1:
                    fails.append(dict(base, kind="property-fails-on-impl", world="Go simulator", bond=bi, written=W.get(bi, []), consumer=j, got=got,
                                      why="the producer of bond %d completed %d writes while its sicv3 consumer %d acknowledged only %d"
                                          % (bi, len(W.get(bi, [])), j, len(got))))
                continue
            if not stream_ok(W.get(bi, []), got):
                fails.append(dict(base, kind="property-fails-on-impl", world="Go simulator", bond=bi, written=W.get(bi, []), consumer=j, got=got,
                                  why="consumer %d of bond %d captured %s but the producer wrote %s" % (j, bi, got, W.get(bi, []))))
        # hardware
        rt = next((l for l in b["lines"] if l.startswith("RT ")), "RT missing")
        vt = next((l for l in b["lines"] if l.startswith("VT ")), "VT missing")
        st["halting_nets"] += rt.startswith("RT skipped halting")
        if rt.startswith("RT skipped") and vt.startswith("VT skipped"):
            st["hw_skipped_env"] += 1
            continue
        if rt.startswith("RT ok"):
            st["rt_ok"] += 1
        elif not rt.startswith("RT skipped sicv3"):
            fails.append(dict(base, kind="rtl-model-correspondence", detail=rt))
        if vt.startswith("VT ok"):
            st["vt_ok"] += 1
        else:
            fails.append(dict(base, kind="hdl-correspondence", detail=vt))
        VW, VR = streams(b["lines"], "VW", "VR")
        for (bi, j), got in sorted(VR.items()):
            if sic_end(bi, j):
                continue      # (sicv3 is not among the opcodes both back-ends implement alike: no hardware-side claim)
            if not stream_ok(VW.get(bi, []), got):
                fails.append(dict(base, kind="property-fails-on-impl", world="emitted Verilog under BMV.Vlog", bond=bi, written=VW.get(bi, []),
                                  consumer=j, got=got,
                                  why="hardware consumer %d of bond %d captured %s but the producer wrote %s" % (j, bi, got, VW.get(bi, []))))
        # the same programs produce the same streams in both worlds: the nets are blocking dataflow networks
        # (every read and write waits for its partner, nothing reads the clock), so the sequence of values on
        # a bond does not depend on speeds -- the hardware's sequence and the simulator's must be prefixes of
        # one another (not so with sicv3, which counts its waiting time)
        if not sic:
            for bi in sorted(set(W) & set(VW)):
                n = min(len(W[bi]), len(VW[bi]))
                st["hw_values_compared"] += n
                if W[bi][:n] != VW[bi][:n]:
                    fails.append(dict(base, kind="property-fails-on-impl", world="emitted Verilog under BMV.Vlog", bond=bi, written=VW[bi], consumer=-1, got=W[bi],
                                      why="the hardware producer of bond %d put %s on the bond, the program (as the simulator runs it) produces %s" % (bi, VW[bi][:n], W[bi][:n])))
                    break
        # a bond that stops moving in hardware while it keeps moving in the simulator is a deadlock
        if VW and len(G) >= 120 and not sic:   # (with sicv3 in the net the two worlds need not keep the same pace)
            for bi, w in sorted(W.items()):
                if bi not in sic and len(w) >= 3 and len(VW.get(bi, [])) == 0 and vt.startswith("VT"):
                    fails.append(dict(base, kind="property-fails-on-impl", world="emitted Verilog under BMV.Vlog", bond=bi, written=[], consumer=0, got=[],
                                      why="bond %d transferred nothing in %d clocks of the hardware net while the simulator transferred %d values"
                                          % (bi, len(G), len(w))))
                    break
    return st, fails


def netlist_tie(impl_text, st, fails):
    """The top level that Write_verilog_main emits for the SAME nets (anchored file verilog.go): every
    consumer of a bond — processor input or BondMachine output — must be a term of the producer's
    `received` conjunction, data/valid must come from the bonded driver.  Done with C02's machinery
    (its harness renders and parses the real netlist, its oracle holds BMV.Bond.wire and evaluates the
    predicates of C02.netlist_exact on the emitted text)."""
    import importlib.util
    spec = importlib.util.spec_from_file_location("c02props", os.path.join(os.path.dirname(os.path.abspath(__file__)), "c02.py"))
    c02 = importlib.util.module_from_spec(spec)
    spec.loader.exec_module(c02)
    hb2 = vlib.go_build("c02")
    if not os.path.exists(c02._oracle()):
        vlib.lake_build([c02.EXE])
    d = vlib.scratch_dir("c04net")
    f = os.path.join(d, "nets.txt")
    cs = cases(impl_text)
    with open(f, "w") as fh:
        for a in cs:
            bonds = [bond_desc(l) for l in a["bonds"]]
            fh.write("G 8\n")
            for i in range(a["P"]):
                fh.write("D ap %d\n" % i)
            nin = max([op + 1 for (_, pp, op, _) in bonds if pp < 0] + [0])
            nout = max([ip + 1 for (_, _, _, cons) in bonds for (c, ip) in cons if c < 0] + [0])
            fh.write("D ai\n" * nin + "D ao\n" * nout)
            for (_, pp, op, cons) in bonds:
                drv = ("i%d" % op) if pp < 0 else "p%do%d" % (pp, op)
                for (c, ip) in cons:
                    fh.write("D ab %s %s\n" % (("o%d" % ip) if c < 0 else "p%di%d" % (c, ip), drv))
            for i in range(a["P"]):
                arch = a["arch"].get(i, "A 8 1 0 0 0 5 ha 0 ops=")
                fh.write("A %d %s\n" % (i, arch[2:]))
                for l in a["src"].get(i, []):
                    fh.write("S %d %s\n" % (i, l))
    tot = c02.Tot()
    c02.run_mode(tot, hb2, "net", ["replaynet", f])
    st["netlists"] = tot.n["net_cases"]
    st["netlists_ok"] = tot.n["net_ok"]
    for x in tot.fails:
        k = next((i for i, a in enumerate(cs) if False), None)
        kind = "property-fails-on-impl" if x["kind"] == "property-netlist" else "netlist-correspondence"
        fails.append({"kind": kind, "world": "emitted top-level netlist (Write_verilog_main)", "bond": -1, "written": [], "consumer": -1, "got": [],
                      "why": "the emitted bondmachine.v does not wire a bond as the machine's topology says: %s | %s"
                             % (x.get("detail", ""), x.get("exact_on_emitted", "")),
                      "netlist_case": x.get("case"), "emitted": x.get("emitted"), "detail": x.get("detail")})


def run_pair(hbin, args, timeout=2400):
    rc, impl, err = vlib.run([hbin] + args, timeout=timeout, env=vlib.goenv())
    if rc != 0:
        raise RuntimeError("harness failed rc=%s: %s" % (rc, err[-2000:]))
    rc2, model, err2 = vlib.run([_oracle()], input_bytes=impl.encode(), timeout=timeout)
    if rc2 != 0:
        raise RuntimeError("oracle failed rc=%s: %s" % (rc2, err2[-2000:]))
    return impl, model


def replay_case(hbin, case, ticks=200):
    d = vlib.scratch_dir("c04")
    f = os.path.join(d, "replay.txt")
    with open(f, "w") as fh:
        fh.write("N %d %d\nTICKS %d\nD %s\n%s\n" % (case["P"], len(case["bonds"]), ticks, case.get("delays", ""), case.get("env", "ENV 0")))
        for l in case["bonds"]:
            fh.write(l + "\n")
        for b in case.get("sic") or []:
            fh.write("SIC %d\n" % b)
        for i, s in enumerate(case["src"]):
            fh.write("M %d %s\n" % (i, case["arch"][i]))
            for l in s:
                fh.write("M %d S %s\n" % (i, l))
    impl, model = run_pair(hbin, ["replay", f])
    return compare(impl, model)


def corpus_files():
    d = os.path.join(vlib.CORPUS, PROP)
    if not os.path.isdir(d):
        return []
    return sorted(os.path.join(d, f) for f in os.listdir(d) if f.endswith(".txt"))


def run(rep):
    thorough = rep.tier == "thorough"
    hbin = vlib.go_build("c04")
    pr = vlib.prove(PROP, MODULES, exes=[EXE], leanchecker=thorough)
    rep.add_proof(pr, "lake build BMV.Props.C04 && lake env lean <#audit_module BMV.Props.C04>"
                  + (" && lake env leanchecker BMV.Props.C04" if thorough else ""),
                  ["BMV.Hs: hand-written transition systems of the handshake in the simulator and in the generated hardware (tied by correspondence)",
                   "BMV.Vlog + harness/vlog: the meaning of the emitted Verilog (docs/Vlog.md); the bond wiring between processors is done by the "
                   "oracle as Write_verilog_main does it (that wiring is C02's subject)"])
    rep.assumptions += [
        "per bond: one producer output bonded to k >= 1 consumer inputs; agents are busy (any non-IO code, any duration, IO on OTHER bonds included) or at an IO instruction of this bond; the nets of the correspondence have several bonds, each replayed on its own instance of the protocol model",
        "relative speeds are varied through instruction padding and through simbox per-opcode delays (one certain value per opcode; "
        "random distributions are not used so that runs replay)",
        "sicv3 (also anchored) is not modelled; liveness (no deadlock under every fair schedule) is proved for both protocol "
        "models (no_deadlock_isa / no_deadlock_rtl) and additionally observed on the implementation (a net that stops transferring is reported)",
    ]
    tot = {"with_delays": 0, "cases": 0, "ticks": 0, "transfers": 0, "captures": 0, "back_to_back_prod": 0, "back_to_back_cons": 0,
           "relays": 0, "two_inputs_same_bond": 0, "port_not_0": 0, "env_nets": 0, "sicv3_nets": 0, "vt_ok": 0, "rt_ok": 0, "hw_skipped_env": 0, "hw_values_compared": 0, "halting_nets": 0}
    hist = {"fanout": {}, "bonds_per_net": {}, "procs_per_net": {}}
    distinct, fails, samples = set(), [], []

    def absorb(st):
        for k in tot:
            tot[k] += st[k]
        for h in hist:
            for k, v in st[h].items():
                hist[h][k] = hist[h].get(k, 0) + v
        distinct.update(st["distinct"])

    if os.path.exists(_oracle()):
        for f in corpus_files():
            impl, model = run_pair(hbin, ["replay", f])
            st, fs = compare(impl, model)
            absorb(st)
            fails += fs
        n, ticks = (2500, 300) if thorough else (160, 160)
        impl, model = run_pair(hbin, ["gen", str(n), str(ticks)])
        st, fs = compare(impl, model)
        absorb(st)
        fails += fs
        nst = {}
        netlist_tie(impl, nst, fails)
        rep.coverage["top_level_netlists_checked"] = nst
        c0 = cases(impl)[0]
        samples.append({"processors": c0["P"], "bonds": c0["bonds"], "programs": [c0["src"].get(i, []) for i in range(c0["P"])],
                        "first_ticks": [l for l in c0["lines"] if l.startswith("G ")][:8],
                        "written": [l for l in c0["lines"] if l.startswith("W ")]})
    rep.coverage.update({
        "evaluations": tot["ticks"],
        "distinct_nontrivial": len(distinct),
        "rule": "seeded random nets: 2..5 processors with 0..4 inputs / outputs each, 1..4 bonds (40% of the nets: one producer fanned out to "
                "1..3 consumers) on arbitrary ports, fan-out 1..4, 40% of the nets with BondMachine inputs / outputs driven by an environment that follows the protocol with a seeded stall pattern, chains of processors that read and write, two inputs of one consumer on "
                "one bond; every processor walks its bonds in increasing order once per loop (dead-lock free), 0..3 nops of padding, one "
                "third of the bonds accessed twice back to back by all parties, half of the nets with per-opcode simulated latencies; "
                "non-trivial/distinct = distinct (net, tick) at which the real VM and the protocol model were compared",
        "samples": samples or [{"note": "correspondence did not run"}],
        "traces_validated_against_impl": tot["cases"],
        "input_distribution": dict(tot, **hist),
    })
    real = [f for f in fails if f["kind"] == "property-fails-on-impl"]
    other = [f for f in fails if f["kind"] != "property-fails-on-impl"]
    net = lambda f: {k: f.get(k) for k in ("P", "arch", "bonds", "sic", "src", "delays", "env")}
    if real:
        f = real[0]
        rep.violation(dict(net(f), property=PROP, kind=f["kind"], world=f["world"], bond=f["bond"], written=f["written"],
                           consumer=f["consumer"], got=f["got"], why=f["why"], other_failing_cases=len(real) - 1,
                           netlist_case=f.get("netlist_case"), emitted=f.get("emitted")))
    elif other or not pr["ok"]:
        broken = list(pr["broken"])
        detail = None
        if other:
            f = other[0]
            detail = dict(net(f), **{k: f.get(k) for k in ("kind", "tick", "bond", "impl", "model", "detail")})
            names = {"netlist-correspondence": "BMV.Bond.wire vs emitted bondmachine.v (C02's tie, on C04's nets)",
                     "sim-correspondence": "BMV.Hs.Isa vs bondmachine.VM", "hdl-correspondence": "BMV.Hs.Rtl vs emitted Verilog under BMV.Vlog",
                     "rtl-model-correspondence": "BMV.Hs.Rtl vs net of BMV.Rtl.cycle"}
            broken.append("correspondence: " + names.get(f["kind"], f["kind"]))
        rep.violation({"property": PROP, "kind": "proof-or-correspondence-broken", "broken": broken, "first_disagreement": detail,
                       "searched": "delivered streams of %d nets (%d transfers in the Go VM; the same nets in emitted hardware): every consumer "
                                   "received exactly the written sequence" % (tot["cases"], tot["transfers"])}, no_failing_input=True)


def replay(rep, path):
    hbin = vlib.go_build("c04")
    vlib.lake_build([EXE])
    obj = json.load(open(path))
    case = obj if obj.get("src") else (obj.get("first_disagreement") or {})
    st, fs = replay_case(hbin, case)
    rep.coverage.update({"evaluations": max(1, st["ticks"]), "distinct_nontrivial": max(2, len(st["distinct"])),
                         "rule": "replay of " + path, "samples": [case.get("src")]})
    for f in fs:
        rep.violation({"property": PROP, "kind": f["kind"], "src": f["src"], "detail": {k: v for k, v in f.items() if k not in ("src",)}},
                      no_failing_input=f["kind"] != "property-fails-on-impl")
