"""C11 — saving and reloading a machine loses nothing.

proof:          lean/BMV/Props/C11.lean — load_save, save_load_save, no_silent_drop, nil_opcode_iff,
                dyn_name_roundtrip, so_roundtrip (9 kinds), built_resolvable, … about the executable model
                lean/BMV/Json.lean (Jsoner/Dejsoner of Machine and Bondmachine, the opcode registry with
                EventuallyCreateInstruction, String()/Instantiate() of the shared objects).
regenerated:    `h-c11 fields` (go/ast) rewrites lean/BMV/Gen/Fields.lean from the Go source on every run:
                flattened field lists of the live and *_json structs, the assignment flow of the four copy
                functions, the shared-object instance structs, the registry orders.  Obligations by `decide`.
correspondence: harness/cmd/c11 builds machines (random construction through the tools' own API, BASM front-end,
                hand-made files), saves them, reloads them in a FRESH process (registries as after init()),
                dumps live / JSON / reloaded machine; lean/Oracle/C11.lean recomputes JSON and reloaded machine
                with the model (registry threaded from case to case) and evaluates the property on the
                implementation's dumps.  Implementation-only observables: reflection-level deep hash before and
                after, byte comparison of re-saved JSON, byte comparison of regenerated Verilog.
"""
import json
import os
import re
import shutil
import time

import vlib

LEVEL = "proof"
PROP = "C11"
MODULES = ["BMV.Props.C11"]
EXE = "oracle-c11"
GEN = os.path.join(vlib.LEAN, "BMV", "Gen", "Fields.lean")
FINDING_NIL = "C11-nil-opcode"


def _oracle():
    return os.path.join(vlib.LEAN, ".lake", "build", "bin", EXE)


# ------------------------------------------------------------------------------------------------
# stream handling

def parse_stream(text):
    """-> (header lines, {case id: {"head": str, "lines": [..]}}, order)"""
    head, cases, order, cur = [], {}, [], None
    for l in text.splitlines():
        if l.startswith("CASE "):
            cid = l.split()[1]
            cur = {"head": l, "lines": []}
            cases[cid] = cur
            order.append(cid)
        elif l == "END":
            cur = None
        elif cur is None:
            head.append(l)
        else:
            cur["lines"].append(l)
    return head, cases, order


def kvs(line):
    d = {}
    for f in line.split()[1:]:
        if "=" in f:
            k, v = f.split("=", 1)
            d[k] = v
        else:
            d[f] = ""
    return d


def strip_deep(l):
    return re.sub(r" deep=\S+", "", l)


def deep_of(lines, prefix):
    for l in lines:
        if l.startswith(prefix) and " deep=" in l:
            return l.rsplit(" deep=", 1)[1].strip()
    return None


def merged_stream(gen, load):
    ghead, gcases, order = gen
    lhead, lcases, _ = load
    out = [l for l in lhead if l.startswith("R ") or l.startswith("F ")]
    for cid in order:
        g = gcases[cid]
        out.append(g["head"])
        out += [l for l in g["lines"] if l[:2] in ("L.", "J.")]
        out += [l for l in lcases.get(cid, {"lines": []})["lines"] if l.startswith("X.")]
    out.append("END")
    return "\n".join(out) + "\n"


def first_of(lines, prefix):
    for l in lines:
        if l.startswith(prefix):
            return l
    return ""


def verilog_agree(gv, lv):
    """gen wrote directory a (gv = ok | skip | panic:…); load wrote b and compared (lv)"""
    if gv == "skip" or lv == "skip":
        return True, "skip"
    if gv == "ok":
        return lv.startswith("same:"), lv
    # the generator itself failed on the original: the reloaded machine must fail identically
    return gv == lv, "both:" + gv if gv == lv else "orig:%s reloaded:%s" % (gv, lv)


def compare(gen, load, model_text, lqmode):
    """returns (stats, fails) for one loading configuration"""
    _, gcases, order = gen
    _, lcases, _ = load
    _, mcases, _ = parse_stream(model_text)
    st = {"cases": 0, "raw": 0, "bm": 0, "mach": 0, "ops": 0, "dyn_ops": 0, "static_ops": set(), "dyn_kinds": {},
          "so_kinds": {}, "sos": 0, "bonds": 0, "verilog_same": 0, "verilog_files": 0, "verilog_bothfail": 0,
          "verilog_skip": 0, "nil_ops_observed": 0, "nil_sos_observed": 0, "loud_load": 0, "unresolvable_cases": 0,
          "threaded": 0, "wordsize": 0, "basm": 0, "distinct": set(), "deep_equal": 0}
    fails = []
    for cid in order:
        g, l, m = gcases[cid], lcases.get(cid), mcases.get(cid)
        st["cases"] += 1
        tag = g["head"].split(None, 3)[3] if len(g["head"].split(None, 3)) > 3 else ""
        kind = g["head"].split()[2]
        st[kind] = st.get(kind, 0) + 1
        if tag.startswith("basm:"):
            st["basm"] += 1
        ogen = kvs(first_of(g["lines"], "O.gen"))
        raw = ogen.get("raw") == "1"

        def fail(k, **kw):
            d = {"kind": k, "case": cid, "tag": tag, "lq": lqmode, "gen": g["lines"], "load": l["lines"] if l else [],
                 "model": m["lines"] if m else []}
            d.update(kw)
            fails.append(d)

        if l is None or m is None:
            fail("desync", detail="case missing in load or model output")
            continue
        oload_line = first_of(l["lines"], "O.load")
        oload = kvs(oload_line)
        P = kvs(first_of(m["lines"], "P "))
        if any(k.startswith("panic") for k in ogen):
            fail("impl-panic", detail="gen: " + first_of(g["lines"], "O.gen"))
            continue
        # statistics from the live dump
        for ln in g["lines"]:
            if ln.startswith("L.D") or (raw and ln.startswith("J.D")):
                d = kvs(ln)
                key = "ops" if "ops" in d else "op"
                body = d.get(key, "0:").split(":", 1)[1]
                for o in [x for x in body.split(",") if x]:
                    st["ops"] += 1
                    if "/" in o and not o.endswith("/static"):
                        st["dyn_ops"] += 1
                        k2 = o.rsplit("/", 1)[1]
                        st["dyn_kinds"][k2] = st["dyn_kinds"].get(k2, 0) + 1
                    elif o.endswith("/static"):
                        st["static_ops"].add(o[:-7])
                if d.get("thr", "0") not in ("0", ""):
                    st["threaded"] += 1
                if d.get("ws", "0") not in ("0", ""):
                    st["wordsize"] += 1
            if ln.startswith("L.B"):
                d = kvs(ln)
                body = d.get("sos", "0:").split(":", 1)[1]
                for s in [x for x in body.split(";") if x]:
                    st["sos"] += 1
                    k2 = s.split("/")[0]
                    st["so_kinds"][k2] = st["so_kinds"].get(k2, 0) + 1
                lk = d.get("links", "0:").split(":", 1)[1]
                st["bonds"] += len([x for x in lk.split(",") if x and x != "-1"])
        if raw:
            st["raw"] += 1
        # ---- loud failure at load time.  "Never SILENTLY drops" is met by any loud refusal (panic, whatever its text)
        # of a file the MODEL says is not loadable in this configuration (it predicts a nil opcode / nil shared object);
        # a panic on a file the model loads completely is an implementation panic.
        load_panic = [k for k in oload if k.startswith("panic")]
        if load_panic:
            model_unloadable = int(P.get("mnilops", "0") or 0) + int(P.get("mnilsos", "0") or 0) > 0
            if model_unloadable:
                st["loud_load"] += 1
                if "runtime_error" in oload_line:
                    st["loud_load_runtime_error"] = st.get("loud_load_runtime_error", 0) + 1
                continue
            fail("impl-panic", detail="load panicked on a file the model loads completely: " + oload_line)
            continue
        # ---- correspondence: Jsoner
        corr = None  # a model/implementation disagreement; reported only if the property itself holds on this case
        if not raw:
            jl = [strip_deep(x) for x in g["lines"] if x.startswith("J.")]
            mj = [x[1:] for x in m["lines"] if x.startswith("MJ")]
            if jl != mj:
                corr = ("correspondence-jsoner", {"impl": jl, "model_j": mj})
        # ---- correspondence: Dejsoner (in the loading process' configuration)
        xl = [strip_deep(x) for x in l["lines"] if x.startswith("X.")]
        mx = [x[1:] for x in m["lines"] if x.startswith("MX")]
        if xl != mx and corr is None:
            corr = ("correspondence-dejsoner", {"impl": xl, "model_x": mx})
        nil_ops = int(oload.get("nilops", "0") or 0)
        nil_sos = int(oload.get("nilsos", "0") or 0)
        st["nil_ops_observed"] += nil_ops
        st["nil_sos_observed"] += nil_sos
        if P.get("counts") != "1":
            fail("property-fails-on-impl", detail="an opcode, shared object or bond table entry was dropped: " + first_of(m["lines"], "P "))
            continue
        if raw:
            if corr:
                fail(corr[0], **corr[1])
            continue
        # ---- the property on the implementation
        resolvable = P.get("resolvable") == "1" and P.get("sovalid") == "1"
        if not resolvable:
            st["unresolvable_cases"] += 1
        problems = []
        dl, dx = deep_of(g["lines"], "L."), deep_of(l["lines"], "X.")
        if lqmode == "other":
            pass  # the quantizer's `max` comes from the loader's range file: compared in the model dump only
        elif dl != dx:
            problems.append("reflection-level dump differs (deep %s vs %s)" % (dl, dx))
        else:
            st["deep_equal"] += 1
        if P.get("loadeq") != "1":
            problems.append("reloaded machine differs from the saved one (model-level comparison of the dumps)")
        if nil_ops or nil_sos:
            problems.append("nil-opcode: %d nil opcodes, %d nil shared objects after loading, no error reported" % (nil_ops, nil_sos))
        if oload.get("resave") != "1":
            problems.append("re-saved JSON differs (resave=%s)" % oload.get("resave"))
        if lqmode == "same":
            if ogen.get("deepequal") != "1" or ogen.get("resave") != "1":
                problems.append("in-process reload differs: " + first_of(g["lines"], "O.gen"))
            ok, why = verilog_agree(ogen.get("verilog", "skip"), oload.get("verilog", "skip"))
            if not ok:
                problems.append("regenerated Verilog differs: " + why)
            elif why == "skip":
                st["verilog_skip"] += 1
            elif why.startswith("same:"):
                st["verilog_same"] += 1
                st["verilog_files"] += int(why.split(":")[1])
            else:
                st["verilog_bothfail"] += 1
        if problems:
            if resolvable:
                fail("property-fails-on-impl", detail="; ".join(problems))
            elif corr:
                fail(corr[0], **corr[1])
            elif nil_ops or nil_sos:
                fail("nil-opcode", detail="; ".join(problems))
            else:
                fail("model-self-check", detail="unresolvable by the model but no nil entry: " + "; ".join(problems))
        elif corr:
            fail(corr[0], **corr[1])
        else:
            st["distinct"].add(strip_deep(" ".join(x for x in g["lines"] if x.startswith("L."))))
    return st, fails


# ------------------------------------------------------------------------------------------------

def eligible_for_cli(gen, load_none):
    """tool-built bondmachines the default-configured CLI can load (no nil entry / refusal without -linear-data-range)"""
    _, gcases, order = gen
    _, lcases, _ = load_none
    res = []
    for cid in order:
        g, l = gcases[cid], lcases.get(cid)
        if g["head"].split()[2] != "bm" or l is None:
            continue
        ogen = kvs(first_of(g["lines"], "O.gen"))
        oload = kvs(first_of(l["lines"], "O.load"))
        if ogen.get("raw") == "1" or "resave" not in oload or oload.get("nilops") != "0" or oload.get("nilsos") != "0":
            continue
        res.append(cid)
    return res


def cli_ops_round(hbin, d, gen, load_none, ncases):
    """Every cmd/bondmachine operation that loads the file and writes it back (-list-*, -specs, -enum-*, -emit-dot,
    -show-program-alias, -create-verilog, -multi-abstract-assembly-file, -add-inputs/outputs/processor/domains/bond/
    shared-objects, -del-inputs/outputs/bonds, -connect-processor-shared-object, -sim on assembled programs), each on a
    fresh copy of the saved file and WITHOUT -register-size: the re-saved file must equal the expected one computed by
    `h-c11 cliplan` (read-only: the saved bytes; mutating: load as the tool does + the one library call + save).
    Machines are picked so that register sizes 16, 32, 64 and 8 are all driven through every operation."""
    cli = vlib.go_build_repo("bondmachine")
    _, gcases, _ = gen
    st = {"ops_cases": 0, "ops_runs": 0, "ops_same": 0, "ops_tool_failed": 0, "ops_by_name": {}, "ops_rsizes": {},
          "ops_mutating_same": 0}
    fails = []
    groups = {}
    for cid in eligible_for_cli(gen, load_none):
        lb = kvs(first_of(gcases[cid]["lines"], "L.B"))
        groups.setdefault(lb.get("rsize", "?"), []).append(cid)
    for k in groups:   # fixed topologies / front-end machines first, then the random ones
        groups[k].sort(key=lambda c: (0 if re.search(r" (topo|basm|allso)", gcases[c]["head"]) else 1, int(c)))
    picked = []
    keys = [k for k in ("16", "32", "64", "8") if k in groups] + [k for k in groups if k not in ("16", "32", "64", "8")]
    while len(picked) < ncases and any(groups[k] for k in keys):
        for k in keys:
            if groups[k] and len(picked) < ncases:
                picked.append(groups[k].pop(0))
    for cid in picked:
        g = gcases[cid]
        tag = g["head"].split(None, 3)[3] if len(g["head"].split(None, 3)) > 3 else ""
        lb = kvs(first_of(g["lines"], "L.B"))
        src = os.path.join(d, cid + ".json")
        wd = os.path.join(d, cid, "ops")
        shutil.rmtree(wd, ignore_errors=True)
        os.makedirs(wd)
        rc, plan, perr = vlib.run([hbin, "cliplan", src, wd], timeout=120, env=vlib.goenv())
        if rc != 0:
            fails.append({"kind": "impl-panic", "case": cid, "tag": tag, "lq": "cli-ops", "gen": g["lines"], "load": [],
                          "model": [], "detail": "h-c11 cliplan failed: " + perr[-300:]})
            continue
        ops = []
        for ln in plan.splitlines():
            f = ln.split()
            if f and f[0] == "OP":
                ops.append((f[1], f[2], f[3], f[4:]))
        if tag.startswith("basm:"):     # a real program: the simulator is a load-and-save operation too
            shutil.copyfile(src, os.path.join(wd, "sim.expected.json"))
            ops.append(("sim", "ro", "sim", ["-sim", "-sim-interactions", "5"]))
        st["ops_cases"] += 1
        st["ops_rsizes"][lb.get("rsize", "?")] = st["ops_rsizes"].get(lb.get("rsize", "?"), 0) + 1
        before = open(src, "rb").read()
        for k, kind, name, args in ops:
            od = os.path.join(wd, k)
            os.makedirs(od, exist_ok=True)
            dst = os.path.join(od, "bm.json")
            shutil.copyfile(src, dst)
            expected = open(os.path.join(wd, k + ".expected.json"), "rb").read()
            rc, so, se = vlib.run([cli, "-bondmachine-file", "bm.json"] + args, timeout=60, cwd=od, env=vlib.goenv())
            after = open(dst, "rb").read()
            st["ops_runs"] += 1
            st["ops_by_name"][name] = st["ops_by_name"].get(name, 0) + 1
            if rc != 0 and after == before:
                st["ops_tool_failed"] += 1     # the tool refused / crashed before saving (random machine): nothing lost
                fb = st.setdefault("ops_tool_failed_by_name", {})
                fb[name] = fb.get(name, 0) + 1
                continue
            if rc == 0 and after == expected:
                st["ops_same"] += 1
                if kind == "mut":
                    st["ops_mutating_same"] += 1
                continue
            try:
                ja, je = json.loads(after), json.loads(expected)
                diff = [key for key in sorted(set(ja) | set(je)) if ja.get(key) != je.get(key)] if isinstance(ja, dict) and isinstance(je, dict) else ["<not an object>"]
                what = "; ".join("%s: expected %s, tool wrote %s" % (key, json.dumps(je.get(key))[:120], json.dumps(ja.get(key))[:120]) for key in diff[:4])
            except ValueError:
                what = "the rewritten file is not valid JSON"
            fails.append({"kind": "property-fails-on-impl", "case": cid, "tag": tag, "lq": "cli-ops", "gen": g["lines"],
                          "load": [], "model": [],
                          "detail": "bondmachine -bondmachine-file bm.json %s (rc=%s, machine Rsize=%s, no -register-size given) "
                                    "left a file that differs from the expected one: %s" % (" ".join(args), rc, lb.get("rsize"), what),
                          "cli_args": args, "saved_file": before.decode("utf-8", "replace")[:4000]})
            break   # one report per machine is enough
    return st, fails


def run_cmd(cmd, timeout=1500, input_bytes=None):
    rc, so, se = vlib.run(cmd, timeout=timeout, env=vlib.goenv(), input_bytes=input_bytes)
    if rc != 0:
        raise RuntimeError("%s failed rc=%s: %s" % (" ".join(cmd[:3]), rc, se[-2000:]))
    return so


def broken_theorems(log):
    """map `error: BMV/Props/C11.lean:<line>` of a failed build to the names of the theorems"""
    src = os.path.join(vlib.LEAN, "BMV", "Props", "C11.lean")
    try:
        lines = open(src, encoding="utf-8").read().splitlines()
    except OSError:
        return []
    names = []
    for m in re.finditer(r"BMV/Props/C11\.lean:(\d+):\d+", log):
        k = min(int(m.group(1)), len(lines)) - 1
        while k >= 0:
            t = re.match(r"\s*(?:theorem|example)\s*(\S*)", lines[k])
            if t:
                nm = t.group(1) or "example@%d" % (k + 1)
                if nm not in names:
                    names.append(nm)
                break
            k -= 1
    return names


def regenerate(hbin):
    """rewrite lean/BMV/Gen/Fields.lean from the source of vlib.REPO"""
    tmp = GEN + ".tmp"
    rc, so, se = vlib.run([hbin, "fields", vlib.REPO, tmp], timeout=300, env=vlib.goenv())
    if rc != 0:
        return False, "extractor failed: " + (so + se)[-1500:]
    new = open(tmp).read()
    old = open(GEN).read() if os.path.exists(GEN) else ""
    if new != old:
        os.replace(tmp, GEN)
    else:
        os.remove(tmp)
    return True, ""


def one_round(hbin, n, vlog_every, seed=None, workdir="run"):
    d = os.path.join(vlib.scratch_dir("c11"), workdir)
    shutil.rmtree(d, ignore_errors=True)
    os.makedirs(d)
    env = vlib.goenv()
    if seed is not None:
        env["VERIF_SEED"] = str(seed)
    corpus = os.path.join(vlib.CORPUS, PROP)
    rc, gout, gerr = vlib.run([hbin, "gen", d, str(n), str(vlog_every), corpus], timeout=1500, env=env)
    if rc != 0:
        raise RuntimeError("h-c11 gen failed rc=%s: %s" % (rc, gerr[-2000:]))
    gen = parse_stream(gout)
    results = {}
    loads = {}
    for lq in ("same", "none", "other"):
        rc, lout, lerr = vlib.run([hbin, "load", d, lq], timeout=1500, env=env)
        if rc != 0:
            raise RuntimeError("h-c11 load %s failed rc=%s: %s" % (lq, rc, lerr[-2000:]))
        load = parse_stream(lout)
        loads[lq] = load
        rc2, model, err2 = vlib.run([_oracle()], input_bytes=merged_stream(gen, load).encode(), timeout=1500)
        if rc2 != 0:
            raise RuntimeError("oracle failed rc=%s: %s" % (rc2, err2[-2000:]))
        results[lq] = compare(gen, load, model, lq)
    one_round.loads = loads
    return d, gen, results


def cli_round(d, gen, load_none, limit):
    """The real `bondmachine` CLI on the saved files: a read-only option (-list-processors) loads the file
    (Unmarshal, Dejsoner, Init) and always rewrites it; the rewritten file must be byte-identical.
    Run on tool-built bondmachines that the default-configured CLI can load (no linear-quantizer / FloPoCo opcode)."""
    cli = vlib.go_build_repo("bondmachine")
    _, gcases, order = gen
    _, lcases, _ = load_none
    st = {"cli_runs": 0, "cli_same": 0, "cli_with_attachments": 0, "cli_domains_ne_processors": 0}
    fails = []
    for cid in order:
        if st["cli_runs"] >= limit:
            break
        g, l = gcases[cid], lcases.get(cid)
        if g["head"].split()[2] != "bm" or l is None:
            continue
        ogen = kvs(first_of(g["lines"], "O.gen"))
        oload_line = first_of(l["lines"], "O.load")
        oload = kvs(oload_line)
        if ogen.get("raw") == "1" or "resave" not in oload or oload.get("nilops") != "0" or oload.get("nilsos") != "0":
            continue
        src = os.path.join(d, cid + ".json")
        wd = os.path.join(d, cid, "cli")
        os.makedirs(wd, exist_ok=True)
        dst = os.path.join(wd, "bm.json")
        shutil.copyfile(src, dst)
        rc, so, se = vlib.run([cli, "-bondmachine-file", "bm.json", "-list-processors"], timeout=60, cwd=wd, env=vlib.goenv())
        before, after = open(src, "rb").read(), open(dst, "rb").read()
        st["cli_runs"] += 1
        lb = kvs(first_of(g["lines"], "L.B"))
        att = any(x for x in lb.get("slinks", "0:").split(":", 1)[-1].split("|") if x)
        if att:
            st["cli_with_attachments"] += 1
        if lb.get("ndom") != lb.get("procs", "0:").split(":")[0]:
            st["cli_domains_ne_processors"] += 1
        if rc == 0 and before == after:
            st["cli_same"] += 1
            continue
        tag = g["head"].split(None, 3)[3] if len(g["head"].split(None, 3)) > 3 else ""
        detail = "bondmachine -bondmachine-file bm.json -list-processors (read-only) rc=%s " % rc
        if before != after:
            k = next((i for i in range(min(len(before), len(after))) if before[i] != after[i]), min(len(before), len(after)))
            detail += "rewrote the file differently at byte %d: saved …%s… rewritten …%s…" % (
                k, before[max(0, k - 60):k + 60].decode("utf-8", "replace"), after[max(0, k - 60):k + 60].decode("utf-8", "replace"))
        else:
            detail += "failed: " + (se or so)[-300:]
        fails.append({"kind": "property-fails-on-impl", "case": cid, "tag": tag, "lq": "cli", "gen": g["lines"],
                      "load": [], "model": [], "detail": detail})
    return st, fails


def summarize(rep, results, extra=None):
    st = results["same"][0]
    dist = {k: (sorted(v) if isinstance(v, set) else v) for k, v in st.items() if k not in ("distinct",)}
    dist["static_ops"] = len(st["static_ops"])
    dist["cross_config"] = {lq: {k: results[lq][0][k] for k in ("nil_ops_observed", "nil_sos_observed", "loud_load", "unresolvable_cases")}
                            for lq in ("none", "other")}
    rep.coverage.update({
        "evaluations": sum(results[lq][0]["cases"] for lq in results),
        "distinct_nontrivial": len(st["distinct"]),
        "rule": "cases = machines saved then loaded in a fresh process under three loader configurations (same / no / other "
                "linear-quantizer ranges); non-trivial = tool-built machine (not a hand-made file) that was saved, reloaded, "
                "compared by deep reflection hash, re-saved and (where generated) Verilog-compared without any difference; "
                "distinct = distinct live dumps",
        "traces_validated_against_impl": st["cases"],
        "input_distribution": dist,
        "unmodelled": [
            "parameters a dynamic family derives from the name (s, f, stack name, opType, LinearQuantizer.max): abstract in the "
            "model; covered by the implementation-side deep hash only",
            "FloPoCo creation (needs the external flopoco program; absent here: creation fails on both sides)",
            "Verilog of machines holding FXP opcodes (dynop_fxp.go reads /tmp/fxpcode/*.v and log.Fatal()s without them): skipped",
            "strconv.Atoi's 64-bit range error; names with digits adjacent to a dynamic pattern (ReplaceAllString + Atoi)",
            "encoding/json fidelity (assumed; strings are valid UTF-8 in the generator)",
            "simulation equality of the reloaded machine (follows from structural equality; simulator is C01/C02 matter)",
        ],
    })
    if extra:
        rep.coverage.update(extra)


def samples_of(gen, k=3):
    _, gcases, order = gen
    out = []
    for cid in order[:2] + order[10:10 + k]:
        g = gcases[cid]
        out.append({"case": g["head"], "live": [strip_deep(x)[:400] for x in g["lines"] if x.startswith("L.")][:3],
                    "json": [x[:300] for x in g["lines"] if x.startswith("J.")][:2]})
    return out


def run(rep):
    thorough = rep.tier == "thorough"
    t0a = time.monotonic()
    hbin = vlib.go_build("c11")
    ok_gen, gen_err = regenerate(hbin)
    pr = vlib.prove(PROP, MODULES, exes=[EXE], leanchecker=thorough)
    named = broken_theorems(pr.get("log", ""))
    if named:
        pr["broken"].append("obligations that no longer check: " + ", ".join(named))
    if not ok_gen:
        pr["ok"] = False
        pr["broken"].append("regeneration of BMV/Gen/Fields.lean: " + gen_err)
    rep.add_proof(pr, "h-c11 fields $VERIF_REPO lean/BMV/Gen/Fields.lean && lake build BMV.Props.C11 && lake env lean <#audit_module BMV.Props.C11>"
                  + (" && lake env leanchecker BMV.Props.C11" if thorough else ""),
                  ["BMV.Json is a hand-written model of machine.go / bondmachine.go (Jsoner, Dejsoner), dynamical_instructions.go and "
                   "shr_*.go (String, Instantiate); tied by the regenerated field/flow lists and by correspondence",
                   "harness/cmd/c11/fields.go (go/ast extractor, syntactic taint analysis of the four copy functions)",
                   "reflection-based dumps and the sha1 deep hash in harness/cmd/c11/dump.go",
                   "Go regexp implements the seven unanchored name languages as modelled by containsPat"])
    rep.assumptions += [
        "equality is modulo the declared transient fields CpID, Tag, SharedHDLOps (theorem fields_machine lists them; the run "
        "fills them with garbage before saving and requires identical Verilog) and identifies nil with empty slices",
        "the loader runs with the same family configuration as the saver (same -linear-data-range, same availability of "
        "flopoco); the two cross-configuration loads are probes for the silent nil-opcode",
        "machines take their opcodes from procbuilder.Allopcodes (every tool does; theorem built_resolvable)",
        "standalone procbuilder machines have CpID 0 (only Bondmachine.Write_verilog ever assigns it)",
    ]
    fails_all = []
    results = None
    if os.path.exists(_oracle()):
        n, ve = (1500, 1) if thorough else (130, 1)
        t0b = time.monotonic()
        d, gen, results = one_round(hbin, n, ve)
        t1 = time.monotonic()
        cst, cfails = cli_round(d, gen, one_round.loads["none"], 400 if thorough else 25)
        t2 = time.monotonic()
        ost, ofails = cli_ops_round(hbin, d, gen, one_round.loads["none"], 60 if thorough else 5)
        cst.update(ost)
        rep.coverage["phase_s"] = {"build+prove": round(t0b - t0a, 1), "gen+3 loads+oracle": round(t1 - t0b, 1),
                                   "cli -list-processors": round(t2 - t1, 1), "cli operations": round(time.monotonic() - t2, 1)}
        summarize(rep, results, {"samples": samples_of(gen), "cli": cst})
        for lq in results:
            fails_all += results[lq][1]
        fails_all += cfails + ofails
    else:
        rep.coverage.update({"evaluations": 0, "distinct_nontrivial": 0, "rule": "correspondence did not run (oracle missing)",
                             "samples": [{"note": "correspondence did not run"}], "traces_validated_against_impl": 0})

    # ---- outcome ----
    real = [f for f in fails_all if f["kind"] in ("property-fails-on-impl", "impl-panic")]
    nil = [f for f in fails_all if f["kind"] == "nil-opcode"]
    other = [f for f in fails_all if f not in real and f not in nil]
    seed = rep.seed
    n_cases = (1500 if thorough else 130)

    def replay_obj(f, extra=None):
        o = {"property": PROP, "kind": f["kind"], "case": f["case"], "tag": f["tag"], "loader_config": f["lq"],
             "detail": f.get("detail", ""), "seed": int(seed), "n": n_cases,
             "live": [x for x in f["gen"] if x.startswith("L.")], "json": [x for x in f["gen"] if x.startswith("J.")],
             "reloaded": [x for x in f["load"] if x.startswith("X.") or x.startswith("O.")],
             "model": f["model"], "replay": "python3 tools/check.py C11 --replay <this file>"}
        for k in ("cli_args", "saved_file"):
            if k in f:
                o[k] = f[k]
        if extra:
            o.update(extra)
        return o

    def size(f):   # tool-built machines before hand-made files, then the smallest
        n = sum(len(x) for x in f["gen"] if x.startswith("L."))
        return (0 if n else 1, n)

    real.sort(key=size)   # report the smallest failing machine
    nil.sort(key=size)
    if real:
        rep.violation(replay_obj(real[0], {"other_failing_cases": ["%s/%s/%s" % (f["case"], f["lq"], f["tag"]) for f in real[1:40]]}))
    if nil:
        known = [k for k in vlib.load_known_findings(PROP) if k.get("id") == FINDING_NIL]
        # signature of the finding: a tool-built machine whose only problem is an opcode that the loading process'
        # family cannot create (model: not Resolvable under the loader's configuration), left nil without any error
        if known:
            rep.known("%s: %d machine(s) saved with linear-quantizer opcodes load with nil opcodes and no error when the "
                      "loader has no matching -linear-data-range (e.g. case %s: %s)" %
                      (FINDING_NIL, len(nil), nil[0]["case"], nil[0]["detail"][:160]))
        else:
            rep.violation(replay_obj(nil[0], {"finding": FINDING_NIL,
                                              "note": "pending fix repo_patches/C11-fix-silent-nil-opcode.diff or known finding " + FINDING_NIL}))
    if other or not pr["ok"]:
        broken = list(pr["broken"])
        detail = None
        if other:
            f = other[0]
            detail = {k: f.get(k) for k in ("kind", "case", "tag", "lq", "detail", "impl", "model_j", "model_x")}
            broken.append("correspondence BMV.Json vs implementation (%s)" % f["kind"])
        searched = "none"
        if results:
            searched = ("property evaluated on %d saved machines x 3 loader configurations (deep hash, re-save, Verilog): "
                        "%d property failures" % (results["same"][0]["cases"], len(real)))
        if not real and not (nil and not vlib.load_known_findings(PROP)):
            rep.violation({"property": PROP, "kind": "proof-or-correspondence-broken", "broken": broken,
                           "first_disagreement": detail, "searched": searched, "seed": int(seed), "n": n_cases},
                          no_failing_input=True)
        else:
            rep.notes.append({"also_broken": broken, "first_disagreement": detail})


def replay(rep, path):
    hbin = vlib.go_build("c11")
    vlib.lake_build([EXE])
    obj = json.load(open(path))
    seed, n, cid = obj.get("seed", 1), obj.get("n", 220), str(obj.get("case", "0"))
    d, gen, results = one_round(hbin, n, 1, seed=seed, workdir="replay")
    summarize(rep, results, {"samples": [obj.get("live", [])[:2]]})
    if str(obj.get("loader_config", "")).startswith("cli"):
        _, cf = cli_round(d, gen, one_round.loads["none"], 400)
        _, of = cli_ops_round(hbin, d, gen, one_round.loads["none"], 60 if n > 200 else 5)
        results = dict(results)
        results["cli"] = ({}, cf + of)
    rep.coverage["rule"] = "replay of case %s of seed %s from %s" % (cid, seed, path)
    rep.coverage["distinct_nontrivial"] = max(1, rep.coverage.get("distinct_nontrivial", 1))
    hit = False
    for lq in results:
        for f in results[lq][1]:
            if f["case"] == cid or obj.get("kind") == "proof-or-correspondence-broken":
                hit = True
                known = [k for k in vlib.load_known_findings(PROP) if k.get("id") == FINDING_NIL]
                if f["kind"] == "nil-opcode" and known:
                    rep.known("%s: case %s still loads with nil opcodes" % (FINDING_NIL, cid))
                    continue
                rep.violation({"property": PROP, "kind": f["kind"], "case": f["case"], "tag": f["tag"], "loader_config": f["lq"],
                               "detail": f.get("detail", ""), "seed": int(seed), "n": n,
                               "live": [x for x in f["gen"] if x.startswith("L.")],
                               "reloaded": [x for x in f["load"] if x.startswith("X.") or x.startswith("O.")]},
                              no_failing_input=f["kind"] not in ("property-fails-on-impl", "impl-panic", "nil-opcode"))
                break
        if hit:
            break
