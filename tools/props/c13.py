"""C13 — generated stacks and queues never lose, duplicate or reorder an element.

proof:          lean/BMV/Props/C13.lean: invariant, refinement to a list (push/pop-top, enqueue/
                dequeue-front), ack ⇔ transfer, flags, no write when full / read when empty,
                register widths suffice, bounded response — for EVERY depth, number of senders and
                receivers and data type (model: lean/BMV/Stack.lean, line by line after the template
                pkg/bmstack/stackfile.go).
correspondence: harness/cmd/c13 calls the real BmStack.WriteHDL() for MemType x Depth x senders x
                receivers x DataSize, parses the emitted Verilog (harness/vlog); lean/Oracle/C13.lean
                runs Vlog.cycle on the parsed module and Stack.step on the same request/data streams
                (protocol-abiding agents + raw streams with resets) and compares ALL registers every
                cycle; a scoreboard judges the property itself on the circuit's outputs alone.
                The modules the in-tree users emit (shared stack/queue, thread FIFO, call/stack opcodes,
                uart/kbd FIFOs; produced with the real procbuilder/bondmachine CLIs) go through the same
                comparison.  thorough: the reachable state space of the parsed circuit is explored
                exhaustively (all input valuations) for D<=3, nS,nR<=2, DataSize 1, in lockstep with
                the model.  The Verilog engine's self-tests run first.
"""
import json
import os
import shutil

import vlib

LEVEL = "proof"
PROP = "C13"
MODULES = ["BMV.Props.C13"]
EXE = "oracle-c13"
TESTDATA = os.path.join(vlib.HARNESS, "vlog", "testdata")


def _oracle():
    return os.path.join(vlib.LEAN, ".lake", "build", "bin", EXE)


def run_pair(hbin, args, timeout=3000):
    """harness | oracle  ->  (harness text, oracle text)"""
    rc, impl, err = vlib.run([hbin] + args, timeout=timeout, env=vlib.goenv())
    if rc != 0:
        raise RuntimeError("harness failed rc=%s: %s" % (rc, err[-2000:]))
    rc2, model, err2 = vlib.run([_oracle()], input_bytes=impl.encode(), timeout=timeout)
    if rc2 != 0:
        raise RuntimeError("oracle failed rc=%s: %s" % (rc2, err2[-2000:]))
    return impl, model


def index_input(impl):
    """-> {id: {"C": line, "V": line, "T": [lines], "X": [lines], "E": [lines]}} in order"""
    cfgs = {}
    cur = None
    for l in impl.splitlines():
        if l.startswith("C "):
            cur = l.split()[1]
            cfgs[cur] = {"C": l, "V": None, "T": [], "X": [], "E": []}
        elif cur is None:
            continue
        elif l.startswith("V "):
            cfgs[cur]["V"] = l
        elif l.startswith("T "):
            cfgs[cur]["T"].append(l)
        elif l.startswith("X "):
            cfgs[cur]["X"].append(l)
        elif l.startswith("E "):
            cfgs[cur]["E"].append(l)
    return cfgs


STAT_KEYS = ("cycles", "wfire", "rfire", "full", "empty", "resets", "wrap", "blockedW", "contended")


def judge(impl, model):
    """-> (stats, failures).  failure = dict(kind, id, detail, cfg_line, trace_line, cycle)"""
    cfgs = index_input(impl)
    stats = {k: 0 for k in STAT_KEYS}
    stats.update({"configs": 0, "configs_ok": 0, "traces": 0, "traces_ok": 0, "bfs": 0, "bfs_states": 0,
                  "bfs_transitions": 0, "maxocc_eq_depth": 0, "skipped_files": []})
    fails = []
    tcount = {}
    xcount = {}
    for l in impl.splitlines():
        if l.startswith("# skipped"):
            stats["skipped_files"].append(l[10:][:160])
    for cid, c in cfgs.items():
        stats["configs"] += 1
        for e in c["E"]:
            fails.append({"kind": "emit-or-parse-error", "id": cid, "detail": e, "cfg_line": c["C"]})
    for l in model.splitlines():
        fs = l.split()
        if len(fs) < 3:
            continue
        tag, cid, verdict = fs[0], fs[1], fs[2]
        c = cfgs.get(cid)
        if tag == "C":
            if verdict == "ok":
                stats["configs_ok"] += 1
            else:
                fails.append({"kind": "elab-error", "id": cid, "detail": l, "cfg_line": c["C"] if c else ""})
        elif tag == "T":
            n = tcount.get(cid, 0)
            tcount[cid] = n + 1
            stats["traces"] += 1
            tl = c["T"][n] if c and n < len(c["T"]) else ""
            if verdict == "ok":
                stats["traces_ok"] += 1
                kv = dict(f.split("=", 1) for f in fs[3:] if "=" in f)
                for k in STAT_KEYS:
                    stats[k] += int(kv.get(k, 0))
                depth = int(dict(f.split("=", 1) for f in c["C"].split()[2:] if "=" in f).get("depth", 0)) if c else 0
                if int(kv.get("maxocc", -1)) == depth:
                    stats["maxocc_eq_depth"] += 1
            else:
                kv = dict(f.split("=", 1) for f in fs[3:6] if "=" in f)
                fails.append({"kind": kv.get("kind", "?"), "id": cid, "detail": l[:600], "cfg_line": c["C"] if c else "",
                              "trace_line": tl, "cycle": int(kv.get("cycle", 0) or 0)})
        elif tag == "X":
            n = xcount.get(cid, 0)
            xcount[cid] = n + 1
            stats["bfs"] += 1
            if verdict == "ok":
                kv = dict(f.split("=", 1) for f in fs[3:] if "=" in f)
                stats["bfs_states"] += int(kv.get("states", 0))
                stats["bfs_transitions"] += int(kv.get("transitions", 0))
            else:
                kv = dict(f.split("=", 1) for f in fs[3:5] if "=" in f)
                fails.append({"kind": kv.get("kind", "?"), "id": cid, "detail": l[:800], "cfg_line": c["C"] if c else "",
                              "trace_line": c["X"][n] if c and n < len(c["X"]) else "", "exhaustive": True})
    # every request must have been answered
    for cid, c in cfgs.items():
        if c["V"] is not None and tcount.get(cid, 0) != len(c["T"]):
            fails.append({"kind": "oracle-desync", "id": cid, "detail": "%d of %d traces answered" % (tcount.get(cid, 0), len(c["T"])),
                          "cfg_line": c["C"]})
    return stats, fails


def truncate_trace(tl, cycle):
    """keep only the words up to the failing cycle (cycle 0 is the reset cycle, word k drives cycle k+1)"""
    fs = tl.split(" ")
    if len(fs) < 7:
        return tl
    ws = fs[6].split(",")
    fs[6] = ",".join(ws[:max(1, cycle)])
    return " ".join(fs)


def selftests(hbin):
    impl, model = run_pair(hbin, ["selftest", TESTDATA])
    bad = [l for l in impl.splitlines() if l.startswith("G ") and not l.endswith(" ok")]
    n_go = len([l for l in impl.splitlines() if l.startswith("G ")])
    s = [l for l in model.splitlines() if l.startswith("S ")]
    if not s or not s[0].startswith("S ok"):
        bad.append("lean: " + (s[0] if s else "no answer"))
    return n_go, (s[0] if s else ""), bad


# ---- the in-tree users of the template, rendered with the real CLIs -------------------------

PB_SIZES = ["-register-size", "8", "-registers", "2", "-inputs", "1", "-outputs", "1", "-rom", "4", "-ram", "2"]


def render_users(notes):
    """run procbuilder / bondmachine (built from the tree under test) in scratch directories so that
    they emit the template through every in-tree caller; returns the directory with the .v files"""
    pb = vlib.go_build_repo("procbuilder")
    bm = vlib.go_build_repo("bondmachine")
    root = vlib.scratch_dir("c13-users" + vlib._REPO_TAG)
    shutil.rmtree(root, ignore_errors=True)
    out = os.path.join(root, "all")
    os.makedirs(out)
    env = vlib.goenv()

    def sh(cmd, cwd, ok_rc=(0,)):
        rc, so, se = vlib.run(cmd, cwd=cwd, env=env, timeout=300)
        if rc not in ok_rc:
            notes.append("users: %s -> rc %s %s" % (" ".join(cmd[1:6]), rc, (se or so)[-200:].replace("\n", " ")))
        return rc

    def collect(d, tag, only=None):
        for f in sorted(os.listdir(d)):
            if f.endswith(".v") and (only is None or f in only):
                shutil.copy(os.path.join(d, f), os.path.join(out, tag + "_" + f))

    # 1. call / stack dynamic opcodes (LIFO inside processor.v)
    d = os.path.join(root, "dyn")
    os.makedirs(d)
    sh([pb] + PB_SIZES + ["-opcodes", "nop,rset,inc,j,i2r,r2o,callo8s,ret8s,push4t,pull4t", "-input-random",
                          "-save-machine", "m.json"], d)
    sh([pb, "-load-machine", "m.json", "-create-verilog"], d)
    collect(d, "dyn", only=["processor.v"])
    # 2. thread FIFO of a multi-threaded processor (Threaded is only reachable through the JSON)
    d = os.path.join(root, "thr")
    os.makedirs(d)
    sh([pb] + PB_SIZES + ["-opcodes", "nop,rset,inc,dec,add,j,jz,i2r,r2o,clr,cpy,tsp", "-input-random",
                          "-save-machine", "m0.json"], d)
    try:
        txt = open(os.path.join(d, "m0.json")).read().replace('"Threaded":0', '"Threaded":3')
        open(os.path.join(d, "m.json"), "w").write(txt)
        sh([pb, "-load-machine", "m.json", "-create-verilog"], d)
        collect(d, "thr", only=[f for f in os.listdir(d) if f.endswith("stack.v")])
    except OSError as e:
        notes.append("users: threaded processor not rendered: %s" % e)
    # 3. shared stack + queue between two processors, uart + kbd FIFOs
    for tag, ops, sos, nproc in (
            ("so", "nop,rset,inc,j,i2r,r2o,r2t,t2r,r2q,q2r", ["stack:5", "queue:3"], 2),
            ("io", "nop,rset,inc,j,i2r,r2o,r2u,u2r,k2r", ["uart:9600:4", "kbd:4"], 1)):
        d = os.path.join(root, tag)
        os.makedirs(d)
        sh([pb] + PB_SIZES + ["-opcodes", ops, "-input-random", "-save-machine", "d0.json"], d)
        b = [bm, "-bondmachine-file", "bm.json"]
        sh(b + ["-add-domains", "d0.json"], d)
        for _ in range(nproc):
            sh(b + ["-add-processor", "0"], d)
        sh(b + ["-add-inputs", "1"], d)
        sh(b + ["-add-outputs", "1"], d)
        sh(b + ["-add-bond", "i0", "-add-bond", "p0i0"], d)
        if nproc == 2:
            sh(b + ["-add-bond", "p0o0", "-add-bond", "p1i0"], d)
            sh(b + ["-add-bond", "p1o0", "-add-bond", "o0"], d)
        else:
            sh(b + ["-add-bond", "p0o0", "-add-bond", "o0"], d)
        for so in sos:
            sh(b + ["-add-shared-objects", so], d)
        for p in range(nproc):
            for s in range(len(sos)):
                sh(b + ["-connect-processor-shared-object", str(p), "-connect-processor-shared-object", str(s)], d)
        # the CLI writes all module files and then may crash in the testbench writer (nil simbox): the
        # files we need exist by then, so the return code is not judged here
        sh(b + ["-create-verilog", "-verilog-flavor", "iverilog", "-verilog-simulation", "-simbox-file", "sb.json"], d,
           ok_rc=(0, 1, 2))
        collect(d, tag, only=[f for f in os.listdir(d) if f.endswith(".v") and f[:2] in ("st", "q0", "q1", "u0", "k0")
                              and not f.startswith("u0uart")])
    return out


EXPECTED_USERS = ["restack", "regstack", "threadStack", "st0", "q0", "u0wfifo", "u0rfifo", "k0rfifo"]


def absorb(total, st):
    for k, v in st.items():
        if isinstance(v, list):
            total.setdefault(k, [])
            total[k] += v
        else:
            total[k] = total.get(k, 0) + v


def make_replay_text(f):
    lines = [f.get("cfg_line", "")]
    if f.get("v_line"):
        lines.append(f["v_line"])
    tl = f.get("trace_line", "")
    if tl.startswith("T ") and f.get("cycle"):
        tl = truncate_trace(tl, f["cycle"])
    if tl:
        lines.append(tl)
    return "\n".join(lines) + "\n"


def rerun_lines(hbin, text):
    d = vlib.scratch_dir("c13")
    p = os.path.join(d, "replay-%d.txt" % os.getpid())
    open(p, "w").write(text)
    impl, model = run_pair(hbin, ["replay", p])
    return judge(impl, model)


def corpus_files():
    d = os.path.join(vlib.CORPUS, PROP)
    if not os.path.isdir(d):
        return []
    return sorted(os.path.join(d, f) for f in os.listdir(d) if f.endswith(".txt"))


def run(rep):
    thorough = rep.tier == "thorough"
    hbin = vlib.go_build("c13")
    pr = vlib.prove(PROP, MODULES, exes=[EXE], leanchecker=thorough)
    rep.add_proof(pr, "lake build BMV.Props.C13 && lake env lean <#audit_module BMV.Props.C13>"
                  + (" && lake env leanchecker BMV.Props.C13" if thorough else ""),
                  ["BMV.Stack is a hand-written line-by-line model of the template pkg/bmstack/stackfile.go; tied by correspondence only",
                   "BMV.Vlog (Sexp, Ast, Elab, Sem): the Verilog-subset semantics that gives the emitted text its meaning "
                   "(two-state, one cycle = settle / posedge blocks on pre-edge values / commit non-blocking writes / settle); docs/Vlog.md",
                   "harness/vlog: Verilog reader (text -> S-expression); constructs outside the subset are errors, never skipped",
                   "text/template rendering of Go's standard library"])
    rep.assumptions += [
        "the circuit is reset before use: registers have no initial value in the template (two-state semantics starts them at 0, then one reset cycle)",
        "one clock domain; Write/Read/Data inputs are synchronous to clk",
        "at least one sender and one receiver (with none the template emits `reg [-1:0]`), depth >= 1",
        "sender and receiver names are pairwise distinct identifiers",
    ]
    notes = rep.notes
    total = {}
    fails = []
    samples = []
    if os.path.exists(_oracle()):
        # 0. the engine's own sanity checks
        n_go, s_lean, bad = selftests(hbin)
        rep.coverage["vlog_selftests"] = {"reader_cases": n_go, "semantics": s_lean, "failed": bad}
        for b in bad:
            fails.append({"kind": "vlog-selftest", "id": "selftest", "detail": b, "cfg_line": ""})
        # 1. corpus
        for f in corpus_files():
            st, fs = rerun_lines(hbin, open(f).read())
            absorb(total, st)
            fails += fs
        # 2. every configuration of the tie through the real WriteHDL
        impl, model = run_pair(hbin, ["gen", "thorough" if thorough else "quick"], timeout=6000)
        st, fs = judge(impl, model)
        absorb(total, st)
        fails += fs
        cf = index_input(impl)
        for cid in list(cf)[:2] + list(cf)[-1:]:
            samples.append({"config": cf[cid]["C"], "first_trace": cf[cid]["T"][0][:120] + "…" if cf[cid]["T"] else ""})
        res = [l for l in model.splitlines() if l.startswith("T ")]
        samples += [{"oracle": l} for l in res[:2]]
        # 3. the in-tree users
        try:
            udir = render_users(notes)
            impl, model = run_pair(hbin, ["users", udir])
            st, fs = judge(impl, model)
            ucf = index_input(impl)
            for f in fs:
                f["v_line"] = (ucf.get(f["id"]) or {}).get("V")
            absorb(total, st)
            fails += fs
            found = sorted(ucf)
            missing = [u for u in EXPECTED_USERS if not any(u in x for x in found)]
            rep.coverage["in_tree_users"] = {"modules": [ucf[x]["C"] for x in found], "not_rendered": missing}
            if missing:
                notes.append("in-tree users not rendered this run: %s" % missing)
        except vlib.BuildError:
            raise
        except Exception as e:  # rendering through the CLIs is support; its failure is reported, not fatal
            notes.append("in-tree users could not be rendered: %s" % str(e)[:300])
            rep.coverage["in_tree_users"] = {"modules": [], "not_rendered": EXPECTED_USERS}

    cycles = total.get("cycles", 0)
    rep.coverage.update({
        "evaluations": cycles + total.get("bfs_transitions", 0),
        "distinct_nontrivial": total.get("wfire", 0) + total.get("rfire", 0),
        "rule": "evaluation = one clock cycle applied to the parsed circuit and to Stack.step with all registers compared; "
                "non-trivial = cycles in which an element was transferred (a write or a read fired); traces: closed-loop "
                "protocol-abiding agents with several raise/drop rates (incl. fill-up and drain profiles) and raw random "
                "streams with resets, 300 (quick) / 1500 (thorough) cycles each; thorough adds exhaustive BFS of small configurations",
        "samples": samples or [{"note": "correspondence did not run"}],
        "traces_validated_against_impl": total.get("traces_ok", 0),
        "input_distribution": {k: v for k, v in total.items() if k != "skipped_files"},
        "unmodelled": ["power-on state without reset (X in 4-state Verilog)", "zero senders or zero receivers",
                       "the WriteTestBench text", "files of the users' file sets outside the Verilog subset: "
                       + "; ".join(sorted(set(total.get("skipped_files", []))))[:600]],
    })

    # ---- outcome ----
    real = [f for f in fails if f["kind"] == "property"]
    other = [f for f in fails if f["kind"] != "property"]
    if real:
        real.sort(key=lambda x: (x.get("cycle", 10 ** 9) if not x.get("exhaustive") else 0))
        f = real[0]
        text = make_replay_text(f)
        rep.violation({"property": PROP, "kind": "property-fails-on-emitted-hdl", "config": f["cfg_line"],
                       "what": f["detail"], "lines": text,
                       "how_to_read": "C = configuration passed to BmStack.WriteHDL(); T = agent mode, raise/drop rates and one "
                                      "random word per cycle (lean/Oracle/C13.lean nextInputs); the oracle message names the cycle",
                       "replay": "python3 tools/check.py C13 --replay <this file>",
                       "others": [x["detail"][:200] for x in real[1:4]]})
    elif other or not pr["ok"]:
        broken = list(pr["broken"])
        first = None
        if other:
            f = other[0]
            first = {"config": f["cfg_line"], "what": f["detail"], "lines": make_replay_text(f)}
            broken.append("correspondence Vlog.cycle(parsed WriteHDL text) vs BMV.Stack.step (%s)" % f["kind"])
        rep.violation({"property": PROP, "kind": "proof-or-correspondence-broken", "broken": broken,
                       "first_disagreement": first, "lines": (first or {}).get("lines", ""),
                       "searched": "the scoreboard judged the property on the circuit's outputs on %d cycles of %d traces "
                                   "(continuing after the first register disagreement): no violation of the property itself"
                                   % (cycles, total.get("traces", 0))},
                      no_failing_input=True)


def replay(rep, path):
    hbin = vlib.go_build("c13")
    vlib.lake_build([EXE])
    obj = json.load(open(path))
    text = obj.get("lines") or ""
    if not text.strip():
        rep.coverage.update({"evaluations": 0, "distinct_nontrivial": 0, "rule": "replay of " + path + " (nothing to replay)",
                             "samples": [obj.get("broken", [])]})
        rep.violation({"property": PROP, "kind": "replay-without-trace", "broken": obj.get("broken", [])},
                      no_failing_input=True)
        return
    st, fs = rerun_lines(hbin, text)
    rep.coverage.update({"evaluations": st.get("cycles", 0), "distinct_nontrivial": st.get("wfire", 0) + st.get("rfire", 0),
                         "rule": "replay of " + path, "samples": [text[:400]]})
    for f in fs:
        rep.violation({"property": PROP, "kind": f["kind"], "config": f["cfg_line"], "what": f["detail"], "lines": text},
                      no_failing_input=f["kind"] != "property")
