"""C14 — compiled quantum circuits implement the circuit's unitary.

proof:          lean/BMV/Props/C14.lean (layer matrix = product of the gate embeddings for every layer
                shape on n <= 5 qubits, product of the emitted matrices = Uref, simulation = column,
                every emitted matrix unitary; every gate of the supported set exactly unitary over C)
correspondence: harness/cmd/c14 builds bmline.BasmBody values, calls the real QasmToBmMatrices,
                MatrixProductComplex and RunSoftwareSimulation and dumps every matrix; lean/Oracle/C14.lean
                evaluates the reference (layerRef/embed/Uref) and BOTH plan models (the code as pinned =
                `stale`, and the repair) on the same circuits and compares entry by entry (exact zero
                pattern, values within 1e-5, product within 1e-5*depth, M*M^dagger = I, simulation
                columns).  The comparison with the reference is the failing-input search on the
                implementation: a circuit whose emitted matrices differ from the reference is a concrete
                violation of the property.
"""
import json
import os
import concurrent.futures as cf

import vlib

LEVEL = "proof"
PROP = "C14"
MODULES = ["BMV.Props.C14"]
EXE = "oracle-c14"
KNOWN_ID = "C14-stale-qubit-position"
PROPERTY_KINDS = ("layer", "product", "not-unitary", "sim-column", "sim-missing", "go-product", "impl-error",
                  "split", "panic")


def _oracle():
    return os.path.join(vlib.LEAN, ".lake", "build", "bin", EXE)


def run_stream(hbin, args, seed=None, sym=False, timeout=2400):
    """harness | oracle; returns (cases{id: (n, [gate text])}, verdicts[list of dict])"""
    env = vlib.goenv()
    if seed is not None:
        env["VERIF_SEED"] = str(seed)
    rc, impl, err = vlib.run([hbin] + args, timeout=timeout, env=env)
    if rc != 0:
        raise RuntimeError("harness failed rc=%s: %s" % (rc, err[-2000:]))
    rc2, model, err2 = vlib.run([_oracle()] + (["--sym"] if sym else []), input_bytes=impl.encode(), timeout=timeout)
    if rc2 != 0:
        raise RuntimeError("oracle failed rc=%s: %s" % (rc2, err2[-2000:]))
    cases = {}
    cur = None
    for l in impl.splitlines():
        if l.startswith("C "):
            f = l.split()
            cur = (int(f[2]), [])
            cases[f[1]] = cur
        elif l.startswith("G ") and cur is not None:
            f = l.split()[1:]
            txt = f[0]
            for a in f[1:]:
                if a.startswith("T="):
                    txt += " " + a[2:]
                elif "=" not in a:
                    txt += " q" + a
            cur[1].append(txt)
    verdicts = []
    sym_lines = []
    for l in model.splitlines():
        if l.startswith("R "):
            d = dict(x.split("=", 1) for x in l.split()[1:] if "=" in x)
            d["line"] = l
            verdicts.append(d)
        elif l.startswith("Y ") or l.startswith("Z "):
            sym_lines.append(l)
    if len(verdicts) != len(cases):
        raise RuntimeError("oracle desync: %d cases, %d verdicts" % (len(cases), len(verdicts)))
    return cases, verdicts, sym_lines


def circuit_text(n, gates):
    return "n %d\n" % n + "".join(g + "\n" for g in gates)


def run_circuit(hbin, n, gates, sym=False):
    d = vlib.scratch_dir("c14")
    f = os.path.join(d, "replay-%d.txt" % os.getpid())
    open(f, "w").write(circuit_text(n, gates))
    cases, verdicts, syms = run_stream(hbin, ["replay", f], sym=sym)
    return verdicts[0], syms


def classify(v):
    """ok | known (signature of the recorded defect) | property (property fails) | model (tie/proof broken)"""
    if v.get("verdict") == "ok":
        return "ok"
    if v.get("verdict") == "stale" and int(v.get("maxmulti", "0")) >= 2:
        return "known"
    if v.get("kind") == "model-self-check" or v.get("kind") == "bad-gate-line":
        return "model"
    return "property"


def shrink(hbin, n, gates, cls):
    """drop gates, then unused high qubits are kept (renaming would change the case): greedy"""
    best = list(gates)
    changed = True
    while changed and len(best) > 1:
        changed = False
        for i in range(len(best) - 1, -1, -1):
            cand = best[:i] + best[i + 1:]
            v, _ = run_circuit(hbin, n, cand)
            if classify(v) == cls:
                best = cand
                changed = True
                break
    v, _ = run_circuit(hbin, n, best)
    return best, v


def corpus_files():
    d = os.path.join(vlib.CORPUS, PROP)
    if not os.path.isdir(d):
        return []
    return sorted(os.path.join(d, f) for f in os.listdir(d) if f.endswith(".txt"))


def run(rep):
    thorough = rep.tier == "thorough"
    hbin = vlib.go_build("c14")
    pr = vlib.prove(PROP, MODULES, exes=[EXE], leanchecker=thorough)
    rep.add_proof(pr, "lake build BMV.Props.C14 && lake env lean <#audit_module BMV.Props.C14>"
                  + (" && lake env leanchecker BMV.Props.C14" if thorough else ""),
                  ["BMV.Quantum is a hand-written model of pkg/bmqsim/bmqsim.go (BmMatrixFromOperation, "
                   "swaps2baseSwaps, QasmToBmMatrices, RunSoftwareSimulation) and of bmmatrix's tensor product, "
                   "row/column swap, matrix product; tied by correspondence only",
                   "float32/complex64 arithmetic is an assumed approximation of a commutative semiring "
                   "(compared with tolerance 1e-5 per matrix, 1e-5*depth for products); math.Cos/Sin vs libm",
                   "reference gate matrices in lean/Oracle/C14.lean are the textbook closed forms "
                   "(bmqsim dialect: `p` = fixed phase gate S, `r` = phase shift P(theta))"])
    rep.assumptions += [
        "gate arguments are distinct declared qubits (a repeated argument makes QasmToBmMatrices loop forever; "
        "`nextop`, `zero`, `input` lines are outside the property's gate set and not generated)",
        "entries compared as float32 values widened to float64; exact-zero pattern compared exactly",
        "n ranges over 1..5 (the property's quantifier)",
    ]
    if not os.path.exists(_oracle()):
        rep.violation({"property": PROP, "kind": "oracle-missing", "broken": pr["broken"]}, no_failing_input=True)
        return

    seed = rep.seed
    streams = []
    for f in corpus_files():
        streams.append(("corpus:" + os.path.basename(f), ["replay", f], seed))
    if thorough:
        streams += [("placements<=5", ["placements", "5"], seed), ("angles", ["angles"], seed),
                    ("pairs<=4", ["pairs", "4", "0"], seed),
                    ("layers<=4", ["layers", "1", "4"], seed), ("layers=5", ["layers", "5", "5"], seed)]
        streams += [("random-%d" % k, ["gen", "625", "8"], seed * 1000 + k) for k in range(8)]
    else:
        streams += [("placements<=4", ["placements", "4"], seed), ("angles", ["angles"], seed),
                    ("cx-pairs=4", ["pairs", "4", "1"], seed),
                    ("layers<=4", ["layers", "1", "4"], seed), ("random", ["gen", "300", "8"], seed)]

    results = []
    with cf.ThreadPoolExecutor(max_workers=6) as ex:
        futs = [(name, ex.submit(run_stream, hbin, args, sd)) for name, args, sd in streams]
        for name, fu in futs:
            cases, verdicts, _ = fu.result()
            results.append((name, cases, verdicts))

    stats = {"cases": 0, "by_stream": {}, "by_n": {}, "by_verdict": {}, "follows": {}, "by_gate": {},
             "maxmulti": {}, "layers_total": 0, "depth_max": 0}
    distinct = set()
    samples = []
    found = {"known": [], "property": [], "model": []}
    for name, cases, verdicts in results:
        stats["by_stream"][name] = len(verdicts)
        for (cid, (n, gates)), v in zip(cases.items(), verdicts):
            stats["cases"] += 1
            stats["by_n"][str(n)] = stats["by_n"].get(str(n), 0) + 1
            cls = classify(v)
            key = v.get("verdict", "?") + ("/" + v["kind"] if "kind" in v else "")
            stats["by_verdict"][key] = stats["by_verdict"].get(key, 0) + 1
            fo = v.get("follows", "-")
            stats["follows"][fo] = stats["follows"].get(fo, 0) + 1
            mm = v.get("maxmulti", "0")
            stats["maxmulti"][mm] = stats["maxmulti"].get(mm, 0) + 1
            stats["layers_total"] += int(v.get("layers", "0"))
            stats["depth_max"] = max(stats["depth_max"], int(v.get("layers", "0")))
            for g in gates:
                k = g.split()[0]
                stats["by_gate"][k] = stats["by_gate"].get(k, 0) + 1
            if gates and "layers" in v:
                distinct.add((n, tuple(gates)))
            if len(samples) < 4 and cls == "ok" and len(gates) >= 3:
                samples.append({"n": n, "gates": gates, "oracle": v["line"]})
            if cls != "ok":
                found[cls].append((n, gates, v))

    rep.coverage.update({
        "evaluations": stats["cases"],
        "distinct_nontrivial": len(distinct),
        "rule": "corpus + every single-gate placement of every kind + every parametric gate (rx,ry,rz,r) with every angle "
                "of a fixed list (0, multiples of pi/2 up to +-6pi, several turns, negative, tiny, large, float32-lossy) + all ordered pairs of cx placements on 4 qubits "
                "(thorough: all pairs of {h,rx,cx,cz,swap,iswap,dcnot} placements for n<=4) + every layer shape "
                "(ordered disjoint argument lists, arity 1/2) for n<=4 (thorough: n<=5) with random gate kinds + "
                "seeded random circuits of depth<=8; non-trivial = circuit with >=1 gate that reached the matrix "
                "comparison; distinct = distinct (n, gate list)",
        "samples": samples or [{"note": "no sample"}],
        "traces_validated_against_impl": stats["cases"],
        "input_distribution": stats,
        "impl_follows_model": stats["follows"],
        "unmodelled": ["nextop/zero/input lines", "repeated or undeclared qubit arguments", "hardware/HLS back-ends",
                       "layer theorem for n > 5 (the certificate is an enumeration up to 5 qubits)"],
    })

    known_listed = [f for f in vlib.load_known_findings(PROP) if f.get("id") == KNOWN_ID]

    # ---- outcome ----
    if found["property"]:
        n, gates, v = min(found["property"], key=lambda t: (len(t[1]), t[0]))
        gates, v = shrink(hbin, n, gates, "property")
        _, syms = run_circuit(hbin, n, gates, sym=True)
        rep.violation({"property": PROP, "kind": "property-fails-on-impl:" + v.get("kind", "?"),
                       "circuit": {"n": n, "gates": gates}, "oracle": v["line"], "expected_vs_actual": [x for x in syms if x.startswith("Z ")][:8],
                       "expected_structure": [x for x in syms if x.startswith("Y ")][:8],
                       "others": len(found["property"]),
                       "replay": "python3 tools/check.py C14 --replay <this file>"})
    if found["known"]:
        n, gates, v = min(found["known"], key=lambda t: (len(t[1]), t[0]))
        gates, v = shrink(hbin, n, gates, "known")
        text = ("a matrix built from two or more multi-qubit gates is wrong when an earlier gate of the same matrix "
                "moved a qubit: BmMatrixFromOperation takes positions from sim.qbitsNum instead of the current "
                "local order (%d circuits this run; minimal: n=%d %s -> emitted matrix is not the circuit's unitary%s)"
                % (len(found["known"]), n, "; ".join(gates),
                   ", or index panic" if any(x[2].get("kind") == "panic" for x in found["known"]) else ""))
        if known_listed:
            rep.known(text)
        else:
            _, syms = run_circuit(hbin, n, gates, sym=True)
            rep.violation({"property": PROP, "kind": "property-fails-on-impl:stale-qubit-position",
                           "circuit": {"n": n, "gates": gates}, "oracle": v["line"],
                           "expected_vs_actual": [x for x in syms if x.startswith("Z ")][:8],
                       "expected_structure": [x for x in syms if x.startswith("Y ")][:8], "others": len(found["known"]),
                           "explanation": text,
                           "proposed_known_finding_id": KNOWN_ID,
                           "fix": "repo_patches/C14-fix-stale-qubit-position.diff",
                           "replay": "python3 tools/check.py C14 --replay <this file>"})
    if found["model"] or not pr["ok"]:
        broken = list(pr["broken"])
        detail = None
        if found["model"]:
            n, gates, v = found["model"][0]
            detail = {"circuit": {"n": n, "gates": gates}, "oracle": v["line"]}
            broken.append("model self check (repaired plan model vs reference)")
        rep.violation({"property": PROP, "kind": "proof-or-correspondence-broken", "broken": broken,
                       "first_disagreement": detail,
                       "searched": "%d circuits compared with the reference on the implementation" % stats["cases"]},
                      no_failing_input=True)


def replay(rep, path):
    hbin = vlib.go_build("c14")
    vlib.lake_build([EXE])
    obj = json.load(open(path))
    c = obj.get("circuit") or (obj.get("first_disagreement") or {}).get("circuit")
    if not c:
        rep.coverage.update({"evaluations": 0, "distinct_nontrivial": 0, "rule": "replay of " + path, "samples": []})
        rep.violation({"property": PROP, "kind": "replay-without-circuit", "broken": obj.get("broken")},
                      no_failing_input=True)
        return
    v, syms = run_circuit(hbin, c["n"], c["gates"], sym=True)
    print(v["line"])
    rep.coverage.update({"evaluations": 1, "distinct_nontrivial": 1, "rule": "replay of " + path,
                         "samples": [{"circuit": c, "oracle": v["line"]}]})
    cls = classify(v)
    if cls != "ok":
        known_listed = [f for f in vlib.load_known_findings(PROP) if f.get("id") == KNOWN_ID]
        if cls == "known" and known_listed:
            rep.known("replayed circuit hits the recorded stale-qubit-position defect")
        else:
            rep.violation({"property": PROP, "kind": "replay:" + cls + ":" + v.get("kind", "?"), "circuit": c,
                           "oracle": v["line"],
                           "expected_vs_actual": [x for x in syms if x.startswith("Z ")][:8]},
                          no_failing_input=(cls == "model"))
