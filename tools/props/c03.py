"""C03 — instruction encoding is a lossless, fixed-width, range-checked code.

proof:          lean/BMV/Props/C03.lean (asm_width, disasm_asm, asm_disasm, asm_operands_fit,
                asm_rejects_overflow, asm_rejects_bad_index, maxWord_ge_len, opcode_numbering) about
                BMV.Encode, generic over the layout table of BMV.Arch.
correspondence: harness/cmd/c03 runs the real Arch.Assembler_process_line / Machine.Disassembler /
                Op_get_instruction_len / Max_word on generated architectures and lines; the oracle
                answers from the model; all lines diffed.  The property itself (fixed width, both
                round trips) is also evaluated on the Go lines alone, for every opcode including the
                ones the model does not cover.
"""
import json
import os
import vlib

LEVEL = "proof"
PROP = "C03"
MODULES = ["BMV.Props.C03"]
EXE = "oracle-c03"
LENIENT = {"clc", "cset", "dpc", "hlt", "je", "nop", "r2s", "s2r"}


def _oracle():
    return os.path.join(vlib.LEAN, ".lake", "build", "bin", EXE)


def blocks(text):
    """-> list of (arch_line, lens[list], [ (I, R, D, RA) ... ])"""
    res = []
    cur = None
    lines = text.splitlines()
    i = 0
    while i < len(lines):
        l = lines[i]
        if l.startswith("A "):
            cur = [l, [], []]
            res.append(cur)
        elif (l.startswith("L ") or l.startswith("MW ")) and cur is not None:
            cur[1].append(l)
        elif l.startswith("I") and cur is not None and i + 3 < len(lines) + 0 and (l == "I" or l.startswith("I ")):
            cur[2].append(tuple(lines[i:i + 4]))
            i += 4
            continue
        i += 1
    return res


def programs(text):
    """-> list of (arch_line, mw or None, [source lines], PR line)"""
    res, arch, mw, cur = [], "", None, None
    for l in text.splitlines():
        if l.startswith("A "):
            arch, mw = l, None
        elif l.startswith("MW "):
            mw = int(l.split()[1])
        elif l.startswith("PG"):
            cur = []
        elif (l == "PL" or l.startswith("PL ")) and cur is not None:
            cur.append(l[3:])
        elif l.startswith("PR") and cur is not None:
            res.append([arch, mw, cur, l, None, None])
            cur = None
        elif l.startswith("PD") and res and res[-1][4] is None:
            res[-1][4] = l[2:].strip()
        elif l.startswith("PS") and res and res[-1][5] is None:
            res[-1][5] = l[2:].strip()
    return res


def dis_items(t):
    """'op a b ; op c' -> [[op, a, b], [op, c]] with numbers normalised"""
    return [norm_tokens("I " + x) for x in t.split(";")] if t and t.strip() else []


def compare_programs(impl, model, st, fails):
    """Arch.Assembler on whole source texts: one word of Max_word bits per instruction line, in order"""
    pi, pm = programs(impl), programs(model)
    if len(pi) != len(pm):
        fails.append({"kind": "oracle-desync", "arch": "", "line": "programs", "impl": str(len(pi)), "model": str(len(pm))})
        return
    for (a, mw, src, ri, pdi, psi), (_, _, _, rm, pdm, _) in zip(pi, pm):
        st["programs"] = st.get("programs", 0) + 1
        instr = [l for l in src if l.split() and not l.split()[0].startswith("#")]
        st["program_comment_lines"] = st.get("program_comment_lines", 0) + (len(src) - len(instr))
        if ri.startswith("PR ok"):
            ws = ri.split()[2:]
            st["programs_ok"] = st.get("programs_ok", 0) + 1
            why = None
            if len(ws) != len(instr):
                why = "%d instruction lines gave %d words" % (len(instr), len(ws))
            elif mw is not None and any(len(w) != mw for w in ws):
                why = "a word of the program is not Max_word=%d bits wide: %s" % (mw, [len(w) for w in ws])
            if why:
                fails.append({"kind": "property-fails-on-impl", "arch": a, "line": "PROGRAM", "program": src, "impl": [ri], "model": [rm], "why": why})
                continue
        elif ri == "PR panic":
            fails.append({"kind": "property-fails-on-impl", "arch": a, "line": "PROGRAM", "program": src, "impl": [ri], "model": [rm],
                          "why": "Arch.Assembler panicked on a source text"})
            continue
        if ri.startswith("PR ok") and pdi is not None:
            # Machine.Disassembler on the whole program = the words disassembled one by one
            st["programs_disassembled"] = st.get("programs_disassembled", 0) + 1
            if pdi.startswith("panic") or pdi == "err" or dis_items(pdi) != dis_items(psi or ""):
                fails.append({"kind": "property-fails-on-impl", "arch": a, "line": "PROGRAM", "program": src, "impl": [ri, "PD " + pdi, "PS " + str(psi)], "model": [rm],
                              "why": "Machine.Disassembler on the whole program differs from the same words disassembled one at a time"})
                continue
        if rm == "PR unmodelled":
            continue
        if ri != rm:
            fails.append({"kind": "correspondence", "arch": a, "line": "PROGRAM", "program": src, "impl": [ri], "model": [rm]})
        elif ri.startswith("PR ok") and pdi is not None and pdm is not None:
            di, dm = dis_items(pdi), dis_items(pdm)
            if len(di) != len(dm) or any(x != y for x, y in zip(di, dm) if x and x[0] not in LENIENT):
                fails.append({"kind": "correspondence", "arch": a, "line": "PROGRAM", "program": src, "impl": [ri, "PD " + pdi], "model": [rm, "PD " + pdm]})


def norm_tokens(iline):
    toks = iline.lower().split()[1:]
    if not toks:
        return toks
    if toks[0] in LENIENT:
        return toks[:1]
    out = [toks[0]]
    for t in toks[1:]:
        if t.isdigit():
            out.append(str(int(t)))
        else:
            out.append(t)
    return out


def prop_check(I, R, D, RA):
    """the property evaluated on the implementation's own answers; returns None or a reason"""
    if not R.startswith("R ok "):
        if R.startswith("panic"):
            return "assembler panicked: " + R
        return None
    f = R.split()
    word, mw = f[2], int(f[3][3:])
    if len(word) != mw:
        return "word has %d bits, Max_word is %d" % (len(word), mw)
    if not D.startswith("D ") or D == "D err" or D == "D -":
        return "assembled word does not disassemble: " + D
    if D[2:].split() != norm_tokens(I):
        return "disassembly %r differs from the instruction %r" % (D[2:], " ".join(norm_tokens(I)))
    if RA != "RA ok " + word:
        return "re-assembling the disassembly gives %r, not the word" % RA
    return None


def compare(impl, model):
    bi, bm = blocks(impl), blocks(model)
    st = {"archs": len(bi), "lines": 0, "ok": 0, "err": 0, "unmodelled_lines": 0, "by_op_ok": {}, "distinct": set(),
          "unmodelled_ops": set(), "len_compared": 0}
    fails = []
    if len(bi) != len(bm):
        fails.append({"kind": "oracle-desync", "arch": "", "line": "", "impl": str(len(bi)), "model": str(len(bm))})
        return st, fails
    for (a, li, xi), (a2, lm, xm) in zip(bi, bm):
        for x, y in zip(li, lm):
            if y.endswith(" ?"):
                st["unmodelled_ops"].add(y.split()[1])
                continue
            st["len_compared"] += 1
            if x != y and not (x.startswith("MW") and any(z.endswith(" ?") for z in lm)):
                fails.append({"kind": "correspondence-len", "arch": a, "line": x, "impl": x, "model": y})
        if len(xi) != len(xm):
            fails.append({"kind": "oracle-desync", "arch": a, "line": "", "impl": str(len(xi)), "model": str(len(xm))})
            continue
        for bI, bM in zip(xi, xm):
            st["lines"] += 1
            I, R, D, RA = bI
            op = (I.split() + ["", ""])[1].lower()
            why = prop_check(I, R, D, RA)
            if why:
                fails.append({"kind": "property-fails-on-impl", "arch": a, "line": I, "impl": list(bI), "model": list(bM), "why": why})
                continue
            if R.startswith("R ok"):
                st["ok"] += 1
                st["by_op_ok"][op] = st["by_op_ok"].get(op, 0) + 1
                st["distinct"].add((a, I))
            else:
                st["err"] += 1
            if bM[1] == "R unmodelled":
                st["unmodelled_lines"] += 1
                continue
            # model maxWord is unknown when the arch has unmodelled opcodes (their length enters Max_word)
            if any(z.endswith(" ?") for z in lm):
                continue
            if bI != bM:
                fails.append({"kind": "correspondence", "arch": a, "line": I, "impl": list(bI), "model": list(bM)})
    compare_programs(impl, model, st, fails)
    return st, fails


def run_pair(hbin, args, timeout=1800):
    rc, impl, err = vlib.run([hbin] + args, timeout=timeout, env=vlib.goenv())
    if rc != 0:
        raise RuntimeError("harness failed rc=%s: %s" % (rc, err[-2000:]))
    rc2, model, err2 = vlib.run([_oracle()], input_bytes=impl.encode(), timeout=timeout)
    if rc2 != 0:
        raise RuntimeError("oracle failed rc=%s: %s" % (rc2, err2[-2000:]))
    return impl, model


def replay_case(hbin, arch, line, program=None):
    d = vlib.scratch_dir("c03")
    f = os.path.join(d, "replay.txt")
    if program is not None:
        line = "PG %d\n%s\nPR" % (len(program), "\n".join(("PL " + l) if l else "PL" for l in program))
    open(f, "w").write(arch + "\n" + line + "\n")
    impl, model = run_pair(hbin, ["replay", f])
    return compare(impl, model)


def shrink(hbin, fail):
    """drop opcodes of the architecture while the same kind of failure persists"""
    arch, line, kind = fail["arch"], fail["line"], fail["kind"]
    if not arch or not line.startswith("I "):
        return fail
    f = arch.split()
    ops = f[9][4:].split(",") if len(f) > 9 and f[9] != "ops=" else []
    keep = (line.split() + ["", ""])[1].lower()
    best = fail
    changed = True
    while changed:
        changed = False
        for o in list(ops):
            if o == keep:
                continue
            cand = [x for x in ops if x != o]
            a2 = " ".join(f[:9] + ["ops=" + ",".join(cand)] + f[10:])
            _, fs = replay_case(hbin, a2, line)
            fs = [x for x in fs if x["kind"] == kind]
            if fs:
                ops = cand
                best = fs[0]
                changed = True
                break
    return best


def corpus_files():
    d = os.path.join(vlib.CORPUS, PROP)
    if not os.path.isdir(d):
        return []
    return sorted(os.path.join(d, f) for f in os.listdir(d) if f.endswith(".txt"))


def run(rep):
    thorough = rep.tier == "thorough"
    hbin = vlib.go_build("c03")
    pr = vlib.prove(PROP, MODULES, exes=[EXE], leanchecker=thorough)
    rep.add_proof(pr, "lake build BMV.Props.C03 && lake env lean <#audit_module BMV.Props.C03>"
                  + (" && lake env leanchecker BMV.Props.C03" if thorough else ""),
                  ["BMV.Arch.layout: hand-written table of the operand fields of each opcode (tied by correspondence only)",
                   "operand tokens (rK / iK / oK / decimal) are parsed by the oracle glue; strconv.Itoa/Atoi round trip assumed",
                   "numeric operands are plain decimals here; other notations are C08's matter (Process_number = bmnumbers.ImportString + ExportBinary)"])
    rep.assumptions += [
        "architectures satisfy R >= 1 (the generators never emit register-less machines with register opcodes)",
        "operand-less opcodes (clc cset dpc hlt je nop r2s s2r) ignore trailing tokens in Go; such lines are not 'syntactically valid' "
        "and are compared after dropping the ignored tokens",
        "opcodes with shared-object operands and the dynamic families are outside the layout table: the fixed-width / round-trip "
        "properties are still evaluated for them on the Go side, but no theorem covers them (listed under unmodelled_ops)",
    ]
    tot = {"archs": 0, "lines": 0, "ok": 0, "err": 0, "unmodelled_lines": 0, "len_compared": 0, "programs": 0, "programs_ok": 0,
           "program_comment_lines": 0, "programs_disassembled": 0}
    by_op = {}
    distinct = set()
    unmod = set()
    fails = []
    samples = []

    def absorb(st):
        for k in tot:
            tot[k] += st.get(k, 0)
        for k, v in st["by_op_ok"].items():
            by_op[k] = by_op.get(k, 0) + v
        distinct.update(st["distinct"])
        unmod.update(st["unmodelled_ops"])

    if os.path.exists(_oracle()):
        for f in corpus_files():
            impl, model = run_pair(hbin, ["replay", f])
            st, fs = compare(impl, model)
            absorb(st)
            fails += fs
        n, per = (1500, 8) if thorough else (150, 5)
        impl, model = run_pair(hbin, ["gen", str(n), str(per)])
        st, fs = compare(impl, model)
        absorb(st)
        fails += fs
        for a, li, xi in blocks(impl)[:2]:
            samples.append({"arch": a, "lines": [list(x) for x in xi[:3]]})
    rep.coverage.update({
        "evaluations": tot["lines"],
        "distinct_nontrivial": len(distinct),
        "rule": "seeded random architectures (rsize, R, N, M, L, O, mode, WordSize override, opcode subsets sized around powers of two) x "
                "per-opcode operand tuples (in range, on each boundary, one past, malformed); non-trivial = accepted line (a word was "
                "produced and round-tripped); distinct = distinct (architecture, line)",
        "samples": samples or [{"note": "correspondence did not run"}],
        "traces_validated_against_impl": tot["lines"] - tot["unmodelled_lines"],
        "input_distribution": dict(tot, accepted_by_opcode=by_op),
        "unmodelled_ops": sorted(unmod),
        "instruction_lengths_compared": tot["len_compared"],
    })
    real = [f for f in fails if f["kind"] == "property-fails-on-impl"]
    other = [f for f in fails if f["kind"] != "property-fails-on-impl"]
    # known findings: matched by signature (opcode + kind of failure); anything else is still reported
    for kf in vlib.load_known_findings(PROP):
        sig = kf.get("signature", {})
        hit = [f for f in real if (f["line"].split() + ["", ""])[1].lower() == sig.get("opcode")
               and f.get("why", "").startswith(sig.get("why_prefix", ""))]
        if hit:
            rep.known("%s (%d lines in this run, e.g. %r on %r)" % (kf["what_fails"], len(hit), hit[0]["line"], hit[0]["arch"][:60]))
            real = [f for f in real if f not in hit]
    if real:
        f = shrink(hbin, real[0])
        rep.violation({"property": PROP, "kind": f["kind"], "arch": f["arch"], "line": f["line"], "program": f.get("program"), "why": f.get("why"),
                       "impl": f["impl"], "model": f["model"], "other_failing_lines": len(real) - 1})
    elif other or not pr["ok"]:
        broken = list(pr["broken"])
        detail = None
        if other:
            f = shrink(hbin, other[0])
            detail = {"arch": f["arch"], "line": f["line"], "program": f.get("program"), "impl": f["impl"], "model": f["model"]}
            broken.append("correspondence BMV.Encode vs procbuilder assembler/disassembler (%s)" % f["kind"])
        rep.violation({"property": PROP, "kind": "proof-or-correspondence-broken", "broken": broken,
                       "first_disagreement": detail,
                       "searched": "fixed width + both round trips evaluated on %d Go assembler answers: all satisfied" % tot["lines"]},
                      no_failing_input=True)


def replay(rep, path):
    hbin = vlib.go_build("c03")
    vlib.lake_build([EXE])
    obj = json.load(open(path))
    d = obj if obj.get("arch") else (obj.get("first_disagreement") or {})
    st, fs = replay_case(hbin, d.get("arch", ""), d.get("line", ""), d.get("program"))
    rep.coverage.update({"evaluations": max(1, st["lines"]), "distinct_nontrivial": 2, "rule": "replay of " + path,
                         "samples": [[d.get("arch"), d.get("line")]]})
    for f in fs:
        rep.violation({"property": PROP, "kind": f["kind"], "arch": f["arch"], "line": f["line"], "why": f.get("why"),
                       "impl": f["impl"], "model": f["model"]}, no_failing_input=f["kind"] != "property-fails-on-impl")
