#!/usr/bin/env python3
"""Regenerates MANIFEST.json from tools/manifest_data.py (claimed checks + not_applicable)."""
import json, os, sys
sys.path.insert(0, os.path.dirname(os.path.abspath(__file__)))
import manifest_data as D

props = [json.loads(l)["id"] for l in open(os.path.join(os.path.dirname(__file__), "..", "properties.jsonl"))]
checks = []
for pid in props:
    c = D.CHECKS.get(pid)
    if not c:
        continue
    checks.append({
        "property_id": pid,
        "quick_cmd": "python3 tools/check.py %s --tier quick" % pid,
        "thorough_cmd": "python3 tools/check.py %s --tier thorough" % pid,
        "evidence_file": "/verif/evidence/%s.json" % pid,
        "replay_cmd_template": "python3 tools/check.py %s --replay {path}" % pid,
        "engine": c.get("engine", "lean4+correspondence"),
        "level_claimed": {"category": c["category"], "text": c["text"], "design_ref": c.get("design_ref", "DESIGN.md section 6 / " + pid)},
        "level_note": c["note"],
        "technique": c["technique"],
    })
na = [{"property_id": pid, "reason": D.NOT_APPLICABLE.get(pid, "no check built yet in this round; see DESIGN.md")} for pid in props if pid not in D.CHECKS]
m = {
    "version": 1,
    "setup_cmd": D.SETUP,
    "hooks": D.HOOKS,
    "engines": D.ENGINES,
    "checks": checks,
    "not_applicable": na,
    "notes": D.NOTES,
}
open(os.path.join(os.path.dirname(__file__), "..", "MANIFEST.json"), "w").write(json.dumps(m, indent=1) + "\n")
print("checks:", [c["property_id"] for c in checks], "n/a:", [x["property_id"] for x in na])
