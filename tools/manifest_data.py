SETUP = "bash tools/setup.sh"
HOOKS = {
    "guard": "verif",
    "enable": "go build -tags verif (harness under /verif/harness and the CLI binaries are built with the tag)",
    "baseline_off_cmd": "cd /repo && go build ./... && go test -vet=off -count=1 -timeout 25m ./...",
    "source_commits": [],
    "add_only": True,
}
ENGINES = [
    {"name": "lean4-proof", "path": "/verif/lean", "serves_properties": [], "kind_free_text":
     "Lean 4 library BMV: hand-written executable models, property theorems in BMV/Props/Cxx.lean, axiom audit by #audit_module"},
    {"name": "correspondence", "path": "/verif/harness", "serves_properties": [], "kind_free_text":
     "Go harness calling the real packages in-process + compiled Lean oracle on the same line protocol; outputs diffed by tools/props/*.py"},
]
NOTES = ("Technique family: machine-checked proof in Lean 4. Every check = kernel-checked theorems about a model + a "
         "correspondence/regenerated tie to /repo's working tree; see DESIGN.md.")

CHECKS = {
    "C10": {
        "category": "proof",
        "technique": "Lean 4 theorems (WF invariant + bond-set specification, induction over edit histories) + model/implementation correspondence on edit histories",
        "text": "Kernel-checked proof that every edit of the topology API preserves well-formedness and changes the bond set exactly per "
                "specification, lifted by induction to every finite history from the empty machine (no bound on length, ports or processors). "
                "The model is hand-written; it is tied to bondmachine.go on every run by replaying generated and exhaustive short edit "
                "histories on the real Bondmachine and on the model and comparing every dumped field after every edit.",
        "note": "Trusted: Lean kernel (axioms propext/Classical.choice/Quot.sound only), the hand-written model BMV.Topology, the Go harness "
                "and oracle glue, injectivity of Bond.String. Not covered: negative ids, shared-object links.",
    },
}
NOT_APPLICABLE = {}
for e in ENGINES:
    e["serves_properties"] = sorted(CHECKS.keys())
