SETUP = "bash tools/setup.sh"
HOOKS = {
    "guard": "verif",
    "enable": "go build -tags verif (harness under /verif/harness and the CLI binaries are built with the tag)",
    "baseline_off_cmd": "cd /repo && go build ./... && go test -vet=off -count=1 -timeout 25m ./...",
    "source_commits": ["55a9764", "ed688b0"],
    "add_only": True,
}
ENGINES = [
    {"name": "lean4-proof", "path": "/verif/lean", "serves_properties": [], "kind_free_text":
     "Lean 4 library BMV: hand-written executable models, property theorems in BMV/Props/Cxx.lean, axiom audit by #audit_module"},
    {"name": "correspondence", "path": "/verif/harness", "serves_properties": [], "kind_free_text":
     "Go harness calling the real packages in-process + compiled Lean oracle on the same line protocol; outputs diffed by tools/props/*.py"},
]
NOTES = ("Technique family: machine-checked proof in Lean 4. Every check = kernel-checked theorems about a model + a "
         "correspondence/regenerated tie to /repo's working tree; see DESIGN.md.")

import json, os, glob
CHECKS = {}
# only checks the integrator has run on the unchanged tree are claimed (manifest.d/ENABLED)
_dir = os.path.join(os.path.dirname(os.path.abspath(__file__)), "manifest.d")
_enabled = open(os.path.join(_dir, "ENABLED")).read().split()
for _f in sorted(glob.glob(os.path.join(_dir, "C*.json"))):
    if os.path.basename(_f)[:-5] in _enabled:
        CHECKS[os.path.basename(_f)[:-5]] = json.load(open(_f))
NOT_APPLICABLE = {}
for e in ENGINES:
    e["serves_properties"] = sorted(CHECKS.keys())
