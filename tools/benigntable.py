#!/usr/bin/env python3
"""Regenerates the table of DESIGN.md 13.6 (between <!-- benign-table:begin/end -->) from benign/*/meta.json."""
import glob
import json
import os
import re

VERIF = os.path.dirname(os.path.dirname(os.path.abspath(__file__)))
NOTES = {"C11-b2": "**alarm** at first (message-text matching, composite literal): repaired, now quiet",
         "C07-b1": "**alarm** at first (per-function table row for a collect-and-sort walk): generic sorted-keys rule, now quiet",
         "C07-b3": "**alarm** at first (`slices.Sorted(maps.Keys(m))` not recognised; `continue` to the loop's own label counted as early exit): repaired, now quiet"}


def key(p):
    m = re.match(r"C(\d+)-b(\d+)", os.path.basename(os.path.dirname(p)))
    return (int(m.group(1)), int(m.group(2)))


rows = ["| id | refactor | check |", "|---|---|---|"]
n = quiet = 0
for f in sorted(glob.glob(os.path.join(VERIF, "benign", "*", "meta.json")), key=key):
    d = json.load(open(f))
    bid = d.get("id") or os.path.basename(os.path.dirname(f))
    s = (d.get("summary") or "").replace("|", "/").replace("\n", " ")[:200]
    q = d.get("check", {}).get("quiet")
    n += 1
    quiet += bool(q)
    verdict = NOTES.get(bid) or ("quiet" if q else "**alarm**")
    rows.append("| %s | %s | %s |" % (bid, s, verdict))
p = os.path.join(VERIF, "DESIGN.md")
t = open(p).read()
b, e = "<!-- benign-table:begin -->", "<!-- benign-table:end -->"
assert b in t and e in t
t = t[:t.index(b) + len(b)] + "\n" + "\n".join(rows) + "\n" + t[t.index(e):]
open(p, "w").write(t)
print("%d benign patches, %d quiet at the last evaluation" % (n, quiet))
