#!/usr/bin/env python3
"""Regenerates the table of seeded changes in DESIGN.md (section 13.5) from seeded/*/meta.json and
seeded/NOTES.json (what had to be strengthened before a change was caught)."""
import json
import os
import re

VERIF = os.path.dirname(os.path.dirname(os.path.abspath(__file__)))
BEGIN, END = "<!-- seeded-table:begin -->", "<!-- seeded-table:end -->"


def main():
    notes = {}
    nf = os.path.join(VERIF, "seeded", "NOTES.json")
    if os.path.exists(nf):
        notes = json.load(open(nf))
    rows = []
    ids = sorted((d for d in os.listdir(os.path.join(VERIF, "seeded")) if re.match(r"C\d\d-\d+$", d)),
                 key=lambda x: (x[:3], int(x[4:])))
    det = inp = 0
    for d in ids:
        m = json.load(open(os.path.join(VERIF, "seeded", d, "meta.json")))
        chk = m.get("check", {})
        demo = m.get("demonstration", {})
        patch = os.path.join(VERIF, "seeded", d, "patch.diff")
        files = sorted(set(l[6:].strip() for l in open(patch) if l.startswith("+++ b/"))) if os.path.exists(patch) else []
        summ = (m.get("summary") or "").replace("|", "/").replace("\n", " ")
        if len(summ) > 230:
            summ = summ[:227] + "..."
        if chk.get("detected"):
            det += 1
            res = "caught, failing input" if chk.get("with_failing_input") else "caught (`no-failing-input-found`)"
            inp += bool(chk.get("with_failing_input"))
        else:
            res = "**missed**"
        demo_s = "confirmed" if demo.get("fails_with_patch") and demo.get("passes_on_clean_tree") else (demo.get("note") or "not re-run")[:60]
        rows.append("| %s | %s | %s | %s | %s | %s |" % (d, ", ".join(os.path.basename(f) for f in files), summ, demo_s, res,
                                                      notes.get(d, "").replace("|", "/")))
    head = ["%d seeded changes from independent sub-agents (property text + scratch worktree only); %d reported by the "
            "property's own quick check, %d of them with a concrete failing input. Column *strengthened* says what had to be "
            "added to the machinery before the change was reported (empty = reported by the check as it was)." % (len(ids), det, inp), "",
            "| id | file | change | demonstration | quick check | strengthened |", "|---|---|---|---|---|---|"]
    block = BEGIN + "\n" + "\n".join(head + rows) + "\n" + END
    p = os.path.join(VERIF, "DESIGN.md")
    s = open(p).read()
    if BEGIN in s:
        s = s[:s.index(BEGIN)] + block + s[s.index(END) + len(END):]
    else:
        s = s.rstrip("\n") + "\n\n### 13.5 Seeded changes: which checks catch which changes\n" + block + "\n"
    open(p, "w").write(s)
    print("%d rows, %d detected, %d with input" % (len(ids), det, inp))


if __name__ == "__main__":
    main()
