#!/usr/bin/env python3
"""Evaluate a BENIGN change (a refactor that keeps the property): python3 tools/beneval.py <PROP> <out-dir> <id>

applies patch.diff in a scratch worktree of /repo, builds the touched packages, runs the property's
quick check against it (VERIF_REPO) and expects exit 0 and no VIOLATION line; stores patch and verdict
under /verif/benign/<id>/.  (Counterpart of tools/seedeval.py: there the check must raise an alarm,
here it must stay quiet.)"""
import hashlib
import json
import os
import shutil
import subprocess
import sys

VERIF = os.path.dirname(os.path.dirname(os.path.abspath(__file__)))
WT = os.environ.get("SEEDEVAL_WT", "/tmp/wt-beneval")
ENV = dict(os.environ, GOFLAGS="-mod=mod", GOPROXY="off", GOSUMDB="off", GOTOOLCHAIN="local")


def sh(cmd, cwd=None, env=None, timeout=3600):
    p = subprocess.run(cmd, shell=True, cwd=cwd, env=env or ENV, stdout=subprocess.PIPE, stderr=subprocess.STDOUT, timeout=timeout)
    return p.returncode, p.stdout.decode("utf-8", "replace")


def main():
    prop, outdir, bid = sys.argv[1], sys.argv[2], sys.argv[3]
    patch = os.path.join(outdir, "patch.diff")
    meta = json.load(open(os.path.join(outdir, "meta.json"))) if os.path.exists(os.path.join(outdir, "meta.json")) else {}
    sh("git -C /repo worktree remove --force %s" % WT)
    shutil.rmtree(WT, ignore_errors=True)
    rc, out = sh("git -C /repo worktree add --detach %s HEAD" % WT)
    assert rc == 0, out
    res = {"property": prop, "id": bid, "summary": meta.get("summary"), "why_behaviour_is_unchanged": meta.get("why_behaviour_is_unchanged")}
    rc, out = sh("git apply %s" % patch, cwd=WT)
    res["patch_applies"] = rc == 0
    if rc == 0:
        touched = sorted(set("./" + os.path.dirname(l[6:]) + "/" for l in open(patch) if l.startswith("+++ b/") and l.strip().endswith(".go")))
        rc, out = sh("go build %s && go test -vet=off -count=1 %s" % (" ".join(touched), " ".join(t for t in touched if t.startswith("./pkg"))), cwd=WT)
        res["existing_tests_with_patch"] = {"rc": rc, "tail": out[-400:]}
        evf = os.path.join(VERIF, "evidence", prop + ".json")
        saved = open(evf, "rb").read() if os.path.exists(evf) else None
        rc, out = sh("python3 tools/check.py %s --tier quick" % prop, cwd=VERIF, env=dict(os.environ, VERIF_REPO=WT))
        if saved is not None:
            open(evf, "wb").write(saved)
        vio = [l for l in out.splitlines() if l.startswith("VIOLATION")]
        res["check"] = {"rc": rc, "violation_lines": vio[:3], "quiet": rc == 0 and not vio}
        for l in vio:
            r = l.split("replay=")[1].split()[0] if "replay=" in l else None
            if r and os.path.exists(r):
                try:
                    res["check"]["replay_excerpt"] = json.dumps(json.load(open(r)))[:1500]
                except Exception:
                    pass
                os.remove(r)
    dst = os.path.join(VERIF, "benign", bid)
    os.makedirs(dst, exist_ok=True)
    if os.path.abspath(outdir) != os.path.abspath(dst):
        shutil.copy(patch, os.path.join(dst, "patch.diff"))
    json.dump(res, open(os.path.join(dst, "meta.json"), "w"), indent=1)
    print(bid, "quiet" if res.get("check", {}).get("quiet") else "ALARM", res.get("check", {}).get("violation_lines"))
    sh("git -C /repo worktree remove --force %s" % WT)
    # the per-worktree binaries tools/vlib.py built for this tree
    shutil.rmtree(os.path.join(VERIF, ".build", "bin-" + hashlib.sha1(WT.encode()).hexdigest()[:8]), ignore_errors=True)


if __name__ == "__main__":
    main()
