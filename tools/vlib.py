"""Shared driver library for the /verif checks (see DESIGN.md sections 2, 3, 8).

Every check is `python3 tools/check.py Cxx --tier quick|thorough [--replay file]`; the property
specific part lives in tools/props/cxx.py and uses the helpers below:

  go_build / go_build_repo   rebuild harness / CLI binaries from /repo's working tree (-tags verif)
  lake_build, prove          kernel-check the property theorems, audit axioms, forbid sorry & co
  run                        run a command with timeout, capture output
  Report                     collects obligations, correspondence counters, violations; writes
                             evidence/Cxx.json, replays/…, prints VIOLATION / KNOWN-FINDING lines
"""
import fcntl
import hashlib
import json
import os
import re
import subprocess
import sys
import time

VERIF = os.path.dirname(os.path.dirname(os.path.abspath(__file__)))
REPO = os.environ.get("VERIF_REPO", "/repo")
LEAN = os.path.join(VERIF, "lean")
HARNESS = os.path.join(VERIF, "harness")
BUILD = os.path.join(VERIF, ".build")
_REPO_TAG = "" if REPO == "/repo" else "-" + hashlib.sha1(REPO.encode()).hexdigest()[:8]
BIN = os.path.join(BUILD, "bin" + _REPO_TAG)
EVIDENCE = os.path.join(VERIF, "evidence")
REPLAYS = os.path.join(VERIF, "replays")
CORPUS = os.path.join(VERIF, "corpus")
ALLOWED_AXIOMS = {"propext", "Classical.choice", "Quot.sound"}
TRUSTED_BASE_COMMON = [
    "Lean 4.33.0 kernel (axioms allowed: propext, Classical.choice, Quot.sound)",
    "tools/vlib.py + tools/props/*.py (driver, diff, canonicalisation)",
    "Go harness under /verif/harness (calls the real packages in-process)",
    "Lean oracle executables (compiled model definitions, line protocol glue)",
]

GOENV = {
    "GOFLAGS": "-mod=mod",
    "GOPROXY": "off",
    "GOSUMDB": "off",
    "GOTOOLCHAIN": "local",
    "CGO_ENABLED": "0",
}


def goenv():
    e = dict(os.environ)
    e.update(GOENV)
    return e


class Lock:
    """serialises lake / go builds between concurrently running checks"""

    def __init__(self, name):
        os.makedirs(BUILD, exist_ok=True)
        self.path = os.path.join(BUILD, name + ".lock")

    def __enter__(self):
        self.f = open(self.path, "w")
        fcntl.flock(self.f, fcntl.LOCK_EX)
        return self

    def __exit__(self, *a):
        fcntl.flock(self.f, fcntl.LOCK_UN)
        self.f.close()


def run(cmd, stdin=None, timeout=600, env=None, cwd=None, input_bytes=None):
    """returns (rc, stdout, stderr); rc = -9 on timeout"""
    try:
        p = subprocess.run(cmd, stdin=stdin, input=input_bytes, stdout=subprocess.PIPE,
                           stderr=subprocess.PIPE, timeout=timeout, env=env, cwd=cwd)
        return p.returncode, p.stdout.decode("utf-8", "replace"), p.stderr.decode("utf-8", "replace")
    except subprocess.TimeoutExpired as e:
        out = (e.stdout or b"").decode("utf-8", "replace")
        err = (e.stderr or b"").decode("utf-8", "replace")
        return -9, out, err + "\nTIMEOUT"


class BuildError(Exception):
    pass


def _install(rc, tmp, out):
    """always rebuilt from the current tree; installed by an atomic rename so that a concurrently
    running check that shares the binary (another tier, another seed) never sees it missing; a
    failed build removes the stale binary instead"""
    try:
        if rc == 0:
            os.replace(tmp, out)
        else:
            for f in (tmp, out):
                if os.path.exists(f):
                    os.remove(f)
    except OSError:
        pass


def go_build(name, race=False):
    """build /verif/harness/cmd/<name> against /repo's working tree; returns the binary path"""
    os.makedirs(BIN, exist_ok=True)
    out = os.path.join(BIN, "h-" + name + ("-race" if race else ""))
    with Lock("go"):
        # go.sum must match /repo's
        try:
            src = open(os.path.join(REPO, "go.sum"), "rb").read()
            dst = os.path.join(HARNESS, "go.sum")
            if not os.path.exists(dst) or open(dst, "rb").read() != src:
                open(dst, "wb").write(src)
        except OSError:
            pass
        tmp = "%s.tmp%d" % (out, os.getpid())
        cmd = ["go", "build", "-tags", "verif"]
        if REPO != "/repo":
            # scratch worktree of /repo (used when testing seeded changes): alternate go.mod
            md = os.path.join(BUILD, "mod" + _REPO_TAG)
            os.makedirs(md, exist_ok=True)
            gm = open(os.path.join(HARNESS, "go.mod")).read().replace("=> /repo", "=> " + REPO)
            open(os.path.join(md, "go.mod"), "w").write(gm)
            open(os.path.join(md, "go.sum"), "wb").write(open(os.path.join(REPO, "go.sum"), "rb").read())
            cmd += ["-modfile", os.path.join(md, "go.mod")]
        env = goenv()
        if race:
            cmd.append("-race")
            env["CGO_ENABLED"] = "1"
        cmd += ["-o", tmp, "./cmd/" + name]
        rc, so, se = run(cmd, cwd=HARNESS, env=env, timeout=900)
        _install(rc, tmp, out)
    if rc != 0:
        raise BuildError("go build of harness %s failed:\n%s%s" % (name, so, se))
    return out


def go_build_repo(cmdname, race=False):
    """build /repo/cmd/<cmdname> (the real CLI) with -tags verif"""
    os.makedirs(BIN, exist_ok=True)
    out = os.path.join(BIN, cmdname + ("-race" if race else ""))
    with Lock("go"):
        tmp = "%s.tmp%d" % (out, os.getpid())
        cmd = ["go", "build", "-tags", "verif"]
        env = goenv()
        if race:
            cmd.append("-race")
            env["CGO_ENABLED"] = "1"
        cmd += ["-o", tmp, "./cmd/" + cmdname]
        rc, so, se = run(cmd, cwd=REPO, env=env, timeout=900)
        _install(rc, tmp, out)
    if rc != 0:
        raise BuildError("go build of cmd/%s failed:\n%s%s" % (cmdname, so, se))
    return out


def lake_build(targets, timeout=3000):
    with Lock("lake"):
        rc, so, se = run(["lake", "build"] + list(targets), cwd=LEAN, timeout=timeout)
    return rc == 0, so + se


def strip_lean_comments(src):
    # block comments (nested not handled beyond one level of care) then line comments
    out = []
    i = 0
    depth = 0
    n = len(src)
    while i < n:
        if src.startswith("/-", i):
            depth += 1
            i += 2
        elif depth > 0 and src.startswith("-/", i):
            depth -= 1
            i += 2
        elif depth > 0:
            i += 1
        elif src.startswith("--", i):
            while i < n and src[i] != "\n":
                i += 1
        else:
            out.append(src[i])
            i += 1
    return "".join(out)


FORBIDDEN = re.compile(
    r"\bsorry\b|\badmit\b|^\s*axiom\s|\bnative_decide\b|\bbv_decide\b|implemented_by|\bunsafe\s|maxHeartbeats\s+0\b|\bextern\b",
    re.M)


def forbidden_scan(paths=None):
    """scan the Lean sources for constructs that would weaken the trusted base"""
    hits = []
    roots = paths or [os.path.join(LEAN, "BMV"), os.path.join(LEAN, "Oracle")]
    for root in roots:
        for dp, dn, fn in os.walk(root):
            for f in fn:
                if not f.endswith(".lean"):
                    continue
                p = os.path.join(dp, f)
                src = strip_lean_comments(open(p, encoding="utf-8").read())
                # string literals may legitimately contain the words (none do today); keep strict
                for m in FORBIDDEN.finditer(src):
                    line = src.count("\n", 0, m.start()) + 1
                    hits.append("%s:%d:%s" % (os.path.relpath(p, VERIF), line, m.group(0).strip()))
    return hits


def audit(module):
    """returns (ok, {theorem: [axioms]}, log): every theorem of `module` with its axioms"""
    os.makedirs(os.path.join(BUILD, "audit"), exist_ok=True)
    f = os.path.join(BUILD, "audit", module.replace(".", "_") + ".lean")
    open(f, "w").write("import BMV.Audit\nimport %s\n#audit_module %s\n" % (module, module))
    with Lock("lake"):
        rc, so, se = run(["lake", "env", "lean", f], cwd=LEAN, timeout=900)
    thms = {}
    for m in re.finditer(r"AXIOMS (\S+) : \[(.*?)\]", so, re.S):
        axs = [a.strip() for a in m.group(2).replace("\n", " ").split(",") if a.strip()]
        thms[m.group(1)] = axs
    cnt = re.search(r"AUDIT-COUNT \S+ : (\d+)", so)
    ok = rc == 0 and cnt is not None and int(cnt.group(1)) == len(thms)
    return ok, thms, so + se


def prove(prop, modules, exes=(), leanchecker=False):
    """Kernel-check the property theorems.

    modules: Lean modules holding property theorems (e.g. ["BMV.Props.C10"]).
    Returns a dict: ok, obligations, discharged, theorems{name:[axioms]}, broken[list of text], log
    """
    res = {"ok": True, "obligations": 0, "discharged": 0, "theorems": {}, "broken": [], "log": ""}
    ok, log = lake_build(["BMV.Audit"] + list(modules) + list(exes))
    res["log"] = log[-6000:]
    if not ok:
        res["ok"] = False
        errs = [l for l in log.splitlines() if "error" in l.lower()][:20]
        res["broken"].append("lake build failed: " + " | ".join(errs))
        # obligations unknown: count theorem keywords in the sources so the evidence stays honest
        n = 0
        for m in modules:
            p = os.path.join(LEAN, m.replace(".", "/") + ".lean")
            if os.path.exists(p):
                n += len(re.findall(r"^\s*theorem\s", strip_lean_comments(open(p).read()), re.M))
        res["obligations"] = max(n, 1)
        return res
    hits = forbidden_scan()
    if hits:
        res["ok"] = False
        res["broken"].append("forbidden constructs: " + ", ".join(hits[:10]))
    for m in modules:
        aok, thms, alog = audit(m)
        if not aok:
            res["ok"] = False
            res["broken"].append("axiom audit of %s failed: %s" % (m, alog[-800:]))
        for t, axs in thms.items():
            res["obligations"] += 1
            bad = [a for a in axs if a not in ALLOWED_AXIOMS]
            if bad:
                res["ok"] = False
                res["broken"].append("theorem %s depends on %s" % (t, bad))
            else:
                res["discharged"] += 1
            res["theorems"][t] = axs
    if res["obligations"] == 0:
        res["ok"] = False
        res["broken"].append("no theorems found in %s" % (modules,))
    if leanchecker and res["ok"]:
        with Lock("lake"):
            rc, so, se = run(["lake", "env", "leanchecker"] + list(modules), cwd=LEAN, timeout=3000)
        res["leanchecker_rc"] = rc
        if rc != 0:
            res["ok"] = False
            res["broken"].append("leanchecker rejected: " + (so + se)[-800:])
    return res


def load_known_findings(prop):
    p = os.path.join(VERIF, "known_findings.json")
    if not os.path.exists(p):
        return []
    d = json.load(open(p))
    return [f for f in d.get("findings", []) if f.get("property") == prop]


class Report:
    def __init__(self, prop, tier, seed, level="proof"):
        self.prop, self.tier, self.seed, self.level = prop, tier, seed, level
        self.t0 = time.monotonic()
        self.coverage = {}
        self.assumptions = []
        self.violations = []   # list of (replay_obj, no_failing_input)
        self.known_hits = []   # list of finding text
        self.notes = []

    # ---- result lines ----
    def violation(self, replay_obj, no_failing_input=False, tag=None):
        os.makedirs(REPLAYS, exist_ok=True)
        blob = json.dumps(replay_obj, sort_keys=True, indent=1)
        h = hashlib.sha1(blob.encode()).hexdigest()[:10]
        path = os.path.join(REPLAYS, "%s-%s.json" % (self.prop, h))
        open(path, "w").write(blob + "\n")
        line = "VIOLATION property=%s replay=%s" % (self.prop, path)
        if tag:
            line += " " + tag
        if no_failing_input:
            line += " no-failing-input-found"
        print(line, flush=True)
        self.violations.append(path)

    def known(self, text):
        print("KNOWN-FINDING: property=%s %s" % (self.prop, text), flush=True)
        self.known_hits.append(text)

    def finish(self):
        os.makedirs(EVIDENCE, exist_ok=True)
        cov = dict(self.coverage)
        if self.known_hits:
            cov["known_findings_reported"] = self.known_hits
        if self.notes:
            cov["notes"] = self.notes
        ev = {
            "property_id": self.prop,
            "tier": self.tier,
            "seed": int(self.seed),
            "level": self.level,
            "coverage": cov,
            "assumptions": self.assumptions,
            "wall_s": round(time.monotonic() - self.t0, 2),
            "violations": len(self.violations),
        }
        tmp = os.path.join(EVIDENCE, self.prop + ".json.tmp")
        open(tmp, "w").write(json.dumps(ev, indent=1, sort_keys=True) + "\n")
        os.replace(tmp, os.path.join(EVIDENCE, self.prop + ".json"))
        return 1 if self.violations else 0

    def add_proof(self, pr, checker_cmd, trusted_extra=()):
        self.coverage["obligations"] = self.coverage.get("obligations", 0) + pr["obligations"]
        self.coverage["discharged"] = self.coverage.get("discharged", 0) + pr["discharged"]
        self.coverage["checker_cmd"] = checker_cmd
        self.coverage["trusted_base"] = TRUSTED_BASE_COMMON + list(trusted_extra)
        self.coverage.setdefault("theorem_axioms", {}).update(pr["theorems"])


def seed_from_env():
    try:
        return int(os.environ.get("VERIF_SEED", "1"))
    except ValueError:
        return 1


def scratch_dir(name):
    d = os.path.join(BUILD, "scratch", name)
    os.makedirs(d, exist_ok=True)
    return d
