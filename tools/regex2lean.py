#!/usr/bin/env python3
"""Translate the Go (RE2) regular expressions of bmnumbers.AllMatchers into BMV.Regex terms.

Input  : the output of `h-c08 matchers` (lines `M <hex of regex> <import func>`, sorted).
Output : lean/BMV/Gen/Matchers.lean (plain data: sources, import function names, one `def` per matcher).

Supported subset (anything else is a TranslateError — never skipped):
  literals, `\\<punct>` escapes, `.`, classes `[...]` / `[^...]` with single chars, ranges and punctuation
  escapes, groups `( )`, `(?: )`, `(?P<name> )`, `(?<name> )` (erased), `|`, postfix `* + ?`,
  one leading `^` and one trailing `$` (MatchString is a search: a missing anchor becomes `anyNL*`).
Semantics taken from regexp/syntax with the Perl flags used by regexp.Compile: `.` does not match
'\\n', negated classes do, `$` is end of text.
"""
import sys

PUNCT = set("\\.+*?()|[]{}^$-<>/'\"!#%&,:;=@_`~ ")
SPECIAL = set("\\.+*?()|[]{}^$")


class TranslateError(Exception):
    pass


class P:
    def __init__(self, src):
        self.s = src
        self.i = 0

    def peek(self):
        return self.s[self.i] if self.i < len(self.s) else None

    def eat(self, c=None):
        ch = self.peek()
        if ch is None or (c is not None and ch != c):
            raise TranslateError("expected %r at %d in %r" % (c, self.i, self.s))
        self.i += 1
        return ch

    # alt := concat ('|' concat)*
    def alt(self, depth):
        branches = [self.concat(depth)]
        while self.peek() == "|":
            self.eat()
            branches.append(self.concat(depth))
        if len(branches) == 1:
            return branches[0]
        return ("alt", branches)

    def concat(self, depth):
        items = []
        while True:
            ch = self.peek()
            if ch is None or ch == "|":
                break
            if ch == ")":
                if depth == 0:
                    raise TranslateError("unbalanced ')' at %d in %r" % (self.i, self.s))
                break
            items.append(self.repeat(depth))
        return ("seq", items)

    def repeat(self, depth):
        a = self.atom(depth)
        while self.peek() in ("*", "+", "?"):
            q = self.eat()
            if self.peek() == "?":
                raise TranslateError("lazy quantifier at %d in %r (outside the subset)" % (self.i, self.s))
            a = ({"*": "star", "+": "plus", "?": "opt"}[q], a)
        if self.peek() == "{":
            raise TranslateError("counted repetition at %d in %r (outside the subset)" % (self.i, self.s))
        return a

    def atom(self, depth):
        ch = self.peek()
        if ch == "(":
            self.eat()
            if self.peek() == "?":
                self.eat()
                nx = self.peek()
                if nx == ":":
                    self.eat()
                elif nx == "P" or nx == "<":
                    if nx == "P":
                        self.eat()
                    self.eat("<")
                    name = ""
                    while self.peek() is not None and self.peek() != ">":
                        name += self.eat()
                    self.eat(">")
                    if not name or not all(c.isalnum() or c == "_" for c in name):
                        raise TranslateError("bad group name %r in %r" % (name, self.s))
                else:
                    raise TranslateError("flag group (?%s at %d in %r (outside the subset)" % (nx, self.i, self.s))
            body = self.alt(depth + 1)
            self.eat(")")
            return body
        if ch == "[":
            return self.cclass()
        if ch == ".":
            self.eat()
            return ("any",)
        if ch == "\\":
            self.eat()
            e = self.peek()
            if e is None or e not in PUNCT:
                raise TranslateError("escape \\%s at %d in %r (outside the subset)" % (e, self.i, self.s))
            self.eat()
            return ("chr", ord(e))
        if ch in ("^", "$"):
            raise TranslateError("anchor %r in the middle at %d in %r (outside the subset)" % (ch, self.i, self.s))
        if ch in SPECIAL:
            raise TranslateError("unexpected %r at %d in %r" % (ch, self.i, self.s))
        self.eat()
        return ("chr", ord(ch))

    def cclass(self):
        self.eat("[")
        neg = False
        if self.peek() == "^":
            neg = True
            self.eat()
        ranges = []

        def one():
            c = self.peek()
            if c is None:
                raise TranslateError("unterminated class in %r" % self.s)
            if c == "[":
                raise TranslateError("'[' inside a class (POSIX class?) in %r (outside the subset)" % self.s)
            if c == "\\":
                self.eat()
                e = self.peek()
                if e is None or e not in PUNCT:
                    raise TranslateError("class escape \\%s in %r (outside the subset)" % (e, self.s))
                self.eat()
                return ord(e)
            self.eat()
            return ord(c)

        if self.peek() == "]":
            raise TranslateError("']' first in a class in %r (outside the subset)" % self.s)
        while self.peek() != "]":
            lo = one()
            if self.peek() == "-" and self.i + 1 < len(self.s) and self.s[self.i + 1] != "]":
                self.eat("-")
                hi = one()
                if hi < lo:
                    raise TranslateError("bad range in %r" % self.s)
                ranges.append((lo, hi))
            else:
                ranges.append((lo, lo))
        self.eat("]")
        return ("cls", neg, ranges)


def parse(src):
    body = src
    pre = post = True   # unanchored sides
    if body.startswith("^"):
        body = body[1:]
        pre = False
    # a trailing unescaped '$'
    if body.endswith("$"):
        k = len(body) - 1
        bs = 0
        while k - 1 - bs >= 0 and body[k - 1 - bs] == "\\":
            bs += 1
        if bs % 2 == 0:
            body = body[:-1]
            post = False
    p = P(body)
    t = p.alt(0)
    if p.i != len(body):
        raise TranslateError("trailing input at %d in %r" % (p.i, src))
    if t[0] == "alt" and not (pre and post):
        raise TranslateError("top-level alternation with anchors in %r (anchors bind tighter; outside the subset)" % src)
    items = []
    if pre:
        items.append(("star", ("anynl",)))
    items.append(t)
    if post:
        items.append(("star", ("anynl",)))
    return ("seq", items) if len(items) > 1 else t


def flat(t):
    """flatten nested seq"""
    if t[0] == "seq":
        out = []
        for x in t[1]:
            fx = flat(x)
            if fx[0] == "seq":
                out.extend(fx[1])
            else:
                out.append(fx)
        return ("seq", out)
    if t[0] == "alt":
        return ("alt", [flat(x) for x in t[1]])
    if t[0] in ("star", "plus", "opt"):
        return (t[0], flat(t[1]))
    return t


def lean(t):
    k = t[0]
    if k == "chr":
        return "chr %d" % t[1]
    if k == "any":
        return "any"
    if k == "anynl":
        return "anyNL"
    if k == "cls":
        return ".cls %s [%s]" % ("true" if t[1] else "false", ", ".join("(%d, %d)" % r for r in t[2]))
    if k == "seq":
        if not t[1]:
            return ".eps"
        return "seq [%s]" % ", ".join(lean(x) for x in t[1])
    if k == "alt":
        xs = t[1]
        r = "(%s)" % lean(xs[-1])
        for x in reversed(xs[:-1]):
            r = "(.alt (%s) %s)" % (lean(x), r)
        return r[1:-1]
    if k in ("star", "plus", "opt"):
        return "%s (%s)" % ({"star": ".star", "plus": "plus", "opt": "opt"}[k], lean(t[1]))
    raise TranslateError("internal: " + repr(t))


def lean_str(s):
    out = []
    for c in s:
        if c == "\\":
            out.append("\\\\")
        elif c == '"':
            out.append('\\"')
        elif c == "\n":
            out.append("\\n")
        elif c == "\t":
            out.append("\\t")
        elif ord(c) < 32:
            out.append("\\x%02x" % ord(c))
        else:
            out.append(c)
    return '"' + "".join(out) + '"'


def read_table(text):
    """-> list of (regex source, import func)"""
    rows = []
    for l in text.splitlines():
        f = l.split()
        if len(f) >= 2 and f[0] == "M":
            src = bytes.fromhex(f[1]).decode("utf-8")
            rows.append((src, f[2] if len(f) > 2 else "?"))
    return rows


def render(rows):
    """-> Lean source; raises TranslateError naming the first untranslatable matcher"""
    defs = []
    for i, (src, fn) in enumerate(rows):
        try:
            t = flat(parse(src))
        except TranslateError as e:
            raise TranslateError("matcher %d %r: %s" % (i, src, e))
        defs.append("/-- `%s` (%s) -/\ndef m%d : Regex := %s" % (src.replace("-/", "- /"), fn, i, lean(t)))
    lines = [
        "/- REGENERATED on every check run by tools/regex2lean.py from `h-c08 matchers`",
        "   (keys of bmnumbers.AllMatchers after init + EventuallyCreateType spread, sorted). Do not edit. -/",
        "import BMV.Regex",
        "namespace BMV.Gen",
        "open BMV.Regex BMV.Regex.Regex",
        "",
        "def matcherSources : List String := [",
        ",\n".join("  " + lean_str(s) for s, _ in rows),
        "]",
        "",
        "def matcherFuncs : List String := [",
        ",\n".join("  " + lean_str(f) for _, f in rows),
        "]",
        "",
    ]
    lines += ["\n\n".join(defs), ""]
    lines += ["def matchers : List Regex := [%s]" % ", ".join("m%d" % i for i in range(len(rows))), "",
              "end BMV.Gen", ""]
    return "\n".join(lines)


def main():
    text = sys.stdin.read()
    rows = read_table(text)
    if not rows:
        sys.stderr.write("no M lines\n")
        sys.exit(2)
    try:
        sys.stdout.write(render(rows))
    except TranslateError as e:
        sys.stderr.write("TRANSLATE-ERROR: %s\n" % e)
        sys.exit(3)


if __name__ == "__main__":
    main()
